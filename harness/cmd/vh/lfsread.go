package main

// Behavioural correspondence for the READING side of LocalFS (C05: every field of every record; C13: the order):
// a tree is described entry by entry (the case line), built on disk from that description as root (mknod, chown,
// set-id bits, xattrs, utimensat on links), read with the real `NewLocalFS(root).Next()` loop, and the full record
// stream — order and every field — is compared with `LFS.readTree` of the Lean model on the same description.
// Sibling names are chosen so that byte order differs from locale / case-insensitive / whole-path order.

import (
	"bytes"
	"context"
	"fmt"
	"io"
	"math/rand"
	"os"
	"path"
	"path/filepath"
	"sort"
	"strconv"
	"strings"
	"syscall"

	"github.com/folbricht/desync"
	"github.com/pkg/xattr"
	"golang.org/x/sys/unix"
)

type lfsEntry struct {
	p      string // absolute, or relative to `top` (then the reader runs with top as its working directory)
	kind   string // d f l v
	data   []byte // content / link target
	typ    uint32 // v: S_IFCHR, S_IFBLK, S_IFIFO, S_IFSOCK
	ma, mi uint32
	mtime  int64
	uid    int
	gid    int
	mode   uint32 // low 12 bits
	xa     [][2]string
	attrs  bool // false: an ancestor above the tree, nothing is set or compared
}

func (e lfsEntry) String() string {
	k, x := e.kind, ""
	switch e.kind {
	case "v":
		k = fmt.Sprintf("v%d:%d:%d", e.typ, e.ma, e.mi)
	case "f", "l":
		x = hx(e.data)
	}
	if !e.attrs {
		return hx([]byte(e.p)) + "|" + k + "|" + x + "|-|-|-|"
	}
	var xs []string
	for _, kv := range e.xa {
		xs = append(xs, hx([]byte(kv[0]))+"="+hx([]byte(kv[1])))
	}
	md := strconv.Itoa(int(e.mode))
	if e.kind == "l" {
		md = "-"
	}
	return fmt.Sprintf("%s|%s|%s|%d|%d:%d|%s|%s", hx([]byte(e.p)), k, x, e.mtime, e.uid, e.gid, md, strings.Join(xs, ","))
}

func parseLfsEntry(s string) (lfsEntry, bool) {
	f := strings.Split(s, "|")
	if len(f) != 7 {
		return lfsEntry{}, false
	}
	e := lfsEntry{p: string(unhx(f[0])), kind: f[1][:1], data: unhx(f[2])}
	if e.kind == "v" {
		var t, a, b uint64
		if n, _ := fmt.Sscanf(f[1][1:], "%d:%d:%d", &t, &a, &b); n != 3 {
			return e, false
		}
		e.typ, e.ma, e.mi = uint32(t), uint32(a), uint32(b)
	}
	if f[3] == "-" {
		return e, true
	}
	e.attrs = true
	e.mtime, _ = strconv.ParseInt(f[3], 10, 64)
	fmt.Sscanf(f[4], "%d:%d", &e.uid, &e.gid)
	if f[5] != "-" {
		m, _ := strconv.Atoi(f[5])
		e.mode = uint32(m)
	}
	if f[6] != "" {
		for _, kv := range strings.Split(f[6], ",") {
			p := strings.SplitN(kv, "=", 2)
			if len(p) == 2 {
				e.xa = append(e.xa, [2]string{string(unhx(p[0])), string(unhx(p[1]))})
			}
		}
	}
	return e, true
}

// canonical record, as the driver prints it
func lfsRecStr(f *desync.File) string {
	kind := "other"
	switch {
	case f.IsDir():
		kind = "dir"
	case f.IsRegular():
		kind = "reg"
	case f.IsSymlink():
		kind = "symlink"
	case f.IsDevice():
		kind = "device"
	}
	sz := "-"
	if kind == "reg" || kind == "symlink" {
		sz = fmt.Sprint(f.Size)
	}
	var data []byte
	if f.Data != nil {
		data, _ = readAllDirty(f.Data) // into a buffer that is not zeros to begin with (sparse.go)
		f.Close()
	}
	keys := make([]string, 0, len(f.Xattrs))
	for k := range f.Xattrs {
		keys = append(keys, k)
	}
	sort.Strings(keys)
	var xs []string
	for _, k := range keys {
		xs = append(xs, hx([]byte(k))+"="+hx([]byte(f.Xattrs[k])))
	}
	return fmt.Sprintf("%s|%s|%s|%s|%d|%d|%d|%d|%s|%s|%s|%d|%d|%s", hx([]byte(f.Path)), hx([]byte(path.Base(f.Name))),
		hx([]byte(path.Dir(f.Path))), kind, uint64(desync.FilemodeToStatMode(f.Mode)), uint64(f.Uid), uint64(f.Gid),
		uint64(f.ModTime.UnixNano()), sz, hx(data), hx([]byte(f.LinkTarget)), f.DevMajor, f.DevMinor, strings.Join(xs, ","))
}

// implLfsRead builds the tree a case line describes (beneath `top`, which is wiped first) and reads it with LocalFS.
// lfs.read top=<hex> root=<hex> nt= ofs= mnt=<hex>,… fs=<entry>;…   (mnt: directories that are mount points of a tmpfs; the
// model skips them when ofs=1, --one-file-system)
func implLfsRead(line string) string {
	_, a := parseCase(line)
	top := string(unhx(a["top"]))
	if top == "" || !filepath.IsAbs(top) || len(strings.Split(top, "/")) < 4 {
		return "bad-case"
	}
	var ents []lfsEntry
	if a["fs"] != "" {
		for _, s := range strings.Split(a["fs"], ";") {
			e, ok := parseLfsEntry(s)
			if !ok {
				return "bad-case"
			}
			ents = append(ents, e)
		}
	}
	skips := map[string]bool{}
	if a["mnt"] != "" {
		for _, h := range strings.Split(a["mnt"], ",") {
			skips[string(unhx(h))] = true
		}
	}
	at := func(p string) string {
		if filepath.IsAbs(p) {
			return p
		}
		return filepath.Join(top, p)
	}
	under := func(p string) bool { return p != top && strings.HasPrefix(p, top+"/") }
	unmountBelow(top)
	os.RemoveAll(top)
	if err := os.MkdirAll(top, 0755); err != nil {
		return "harness: " + err.Error()
	}
	defer func() {
		unmountBelow(top)
		os.RemoveAll(top)
	}()
	// create parents first …
	order := make([]int, len(ents))
	for i := range order {
		order[i] = i
	}
	sort.SliceStable(order, func(i, j int) bool { return len(at(ents[order[i]].p)) < len(at(ents[order[j]].p)) })
	for _, i := range order {
		e := ents[i]
		p := at(e.p)
		if !under(p) {
			continue
		}
		var err error
		switch e.kind {
		case "d":
			err = os.Mkdir(p, 0755)
			if err == nil && skips[e.p] {
				err = syscall.Mount("none", p, "tmpfs", 0, "")
			}
		case "f":
			err = writeFileHoles(p, e.data, 0644) // blocks of zeros stay unallocated: a file with long zero runs is sparse on disk
		case "l":
			err = os.Symlink(string(e.data), p)
		case "v":
			err = syscall.Mknod(p, e.typ|0644, int(unix.Mkdev(e.ma, e.mi)))
		}
		if err != nil {
			return "harness: cannot build " + e.p + ": " + err.Error()
		}
	}
	// … and set attributes children first, so that a directory's time stamp is the last thing done to it
	for k := len(order) - 1; k >= 0; k-- {
		e := ents[order[k]]
		p := at(e.p)
		if !under(p) || !e.attrs {
			continue
		}
		if err := os.Lchown(p, e.uid, e.gid); err != nil {
			return "harness: chown " + e.p + ": " + err.Error()
		}
		if e.kind != "l" {
			if err := syscall.Chmod(p, e.mode); err != nil {
				return "harness: chmod " + e.p + ": " + err.Error()
			}
		}
		for _, kv := range e.xa {
			if err := xattr.LSet(p, kv[0], []byte(kv[1])); err != nil {
				return "harness: setxattr " + e.p + " " + kv[0] + ": " + err.Error()
			}
		}
		ts := unix.NsecToTimespec(e.mtime)
		if err := unix.UtimesNanoAt(unix.AT_FDCWD, p, []unix.Timespec{ts, ts}, unix.AT_SYMLINK_NOFOLLOW); err != nil {
			return "harness: utimensat " + e.p + ": " + err.Error()
		}
	}
	root := string(unhx(a["root"]))
	if !filepath.IsAbs(root) {
		old, err := os.Getwd()
		if err != nil {
			return "harness: " + err.Error()
		}
		if err := os.Chdir(top); err != nil {
			return "harness: " + err.Error()
		}
		defer os.Chdir(old)
	}
	return guard(func() string {
		fs := desync.NewLocalFS(root, desync.LocalFSOptions{NoTime: a["nt"] == "1", OneFileSystem: a["ofs"] == "1"})
		// whatever happens, let the walk's goroutine run to its end before the tree is taken away from under it (an
		// entry whose lstat fails makes the callback dereference a nil FileInfo under --one-file-system: see
		// cmd/repro_onefs_nilinfo): the rest of the stream is drained
		defer func() {
			for i := 0; i < 1000000; i++ {
				f, err := fs.Next()
				if err == io.EOF || (err != nil && f == nil && i > 100000) {
					break
				}
				if f != nil {
					f.Close()
				}
			}
		}()
		if a["tar"] == "1" { // end to end: the archive Tar writes from this directory
			var buf bytes.Buffer
			if err := desync.Tar(context.Background(), &buf, fs); err != nil {
				return "err"
			}
			return "ok tar=" + hx(buf.Bytes())
		}
		var recs []string
		for {
			f, err := fs.Next()
			if err == io.EOF {
				break
			}
			if err != nil {
				return "err"
			}
			recs = append(recs, lfsRecStr(f))
		}
		return "ok " + strings.Join(recs, ";")
	})
}

func unmountBelow(top string) {
	b, err := os.ReadFile("/proc/mounts")
	if err != nil {
		return
	}
	ls := strings.Split(string(b), "\n")
	for i := len(ls) - 1; i >= 0; i-- {
		f := strings.Fields(ls[i])
		if len(f) > 1 {
			mp := unescapeMount(f[1])
			if strings.HasPrefix(mp, top+"/") {
				syscall.Unmount(mp, syscall.MNT_DETACH)
			}
		}
	}
}

// /proc/mounts writes space, tab, newline and backslash as \ooo
func unescapeMount(s string) string {
	var b strings.Builder
	for i := 0; i < len(s); i++ {
		if s[i] == '\\' && i+3 < len(s) {
			if v, err := strconv.ParseUint(s[i+1:i+4], 8, 8); err == nil {
				b.WriteByte(byte(v))
				i += 3
				continue
			}
		}
		b.WriteByte(s[i])
	}
	return b.String()
}

// what the sandbox allows (the checks run as root on a file system with user xattrs; degrade quietly elsewhere)
type lfsCaps struct {
	mknod, chown, userXattr, linkXattr, mount bool
	sparseBS                                  int   // block size if files with holes come out sparse on the scratch file system, else 0
	sparse                                    []int // shapes (sparse.go) of the sparse regular files the next tree gets
}

func probeLfsCaps(dir string) lfsCaps {
	var c lfsCaps
	os.MkdirAll(dir, 0755)
	defer os.RemoveAll(dir)
	p := filepath.Join(dir, "n")
	c.mknod = syscall.Mknod(p, syscall.S_IFCHR|0600, int(unix.Mkdev(1, 3))) == nil
	f := filepath.Join(dir, "f")
	os.WriteFile(f, nil, 0644)
	c.chown = os.Chown(f, 1234, 4321) == nil
	c.userXattr = xattr.LSet(f, "user.probe", []byte("x")) == nil
	l := filepath.Join(dir, "l")
	os.Symlink("f", l)
	c.linkXattr = xattr.LSet(l, "trusted.probe", []byte("x")) == nil
	m := filepath.Join(dir, "m")
	os.Mkdir(m, 0755)
	if syscall.Mount("none", m, "tmpfs", 0, "") == nil {
		c.mount = true
		syscall.Unmount(m, syscall.MNT_DETACH)
	}
	return c
}

// sibling names whose byte order is not their locale, case-folded or whole-path order, prefixes of one another,
// names that differ in a byte below or above '/' (0x2f): "a" (a directory) < "a-b" < "a.d" < "a/…" < "a0" byte-wise on
// whole paths, but the walk sorts names, so the children of "a" come right after "a"
var lfsNamePool = []string{"a", "a-b", "a.d", "a0", "a_b", "a b", "ab", "abc", "A", "B", "b", "Z", "z", "_", "-", "~", ".hidden", "..x", "...",
	"0", "00", "1", "10", "2", "é", "e", "f", "É", "ä", "Ä", "日本", "a\xff", "a\tb", "a\nb", "A-", "a+", "a,", "a!", "a#", "#", "+", ",", "café", "cafe", "cafes",
	strings.Repeat("n", 255), "a\x01", "a\x7f", "a\xc3"}

func genLfsTree(rng *rand.Rand, top string, rel bool, caps lfsCaps, wantSkip bool) (ents []lfsEntry, rootReal string, skip []string) {
	mk := func(p string) string {
		if rel {
			return p
		}
		return filepath.Join(top, p)
	}
	if !rel {
		for d := top; d != "/" && d != "."; d = filepath.Dir(d) {
			ents = append(ents, lfsEntry{p: d, kind: "d"})
		}
	}
	attrs := func(e *lfsEntry) {
		e.attrs = true
		e.mtime = int64(rng.Intn(2000000000))*1000000000 + int64(rng.Intn(1000000000))
		switch rng.Intn(12) {
		case 0:
			e.mtime = 0
		case 1:
			e.mtime = int64(rng.Intn(1000))
		}
		e.uid, e.gid = os.Getuid(), os.Getgid() // what the objects get when the sandbox does not let the harness chown
		if caps.chown {
			e.uid, e.gid = rng.Intn(70000), rng.Intn(70000)
			if rng.Intn(8) == 0 {
				e.uid, e.gid = 4000000000+rng.Intn(1000), 2147483648+rng.Intn(1000)
			}
		}
		e.mode = uint32(rng.Intn(0o1000))
		switch rng.Intn(6) {
		case 0:
			e.mode |= syscall.S_ISUID
		case 1:
			e.mode |= syscall.S_ISGID
		case 2:
			e.mode |= syscall.S_ISVTX
		case 3:
			e.mode |= uint32(rng.Intn(8)) << 9
		}
		nx := 0
		if rng.Intn(3) == 0 {
			nx = 1 + rng.Intn(4)
		}
		keys := []string{"b", "a", "B", "a.b", "ab", "z", "0", "a-", "a_"}
		rng.Shuffle(len(keys), func(i, j int) { keys[i], keys[j] = keys[j], keys[i] })
		for i := 0; i < nx; i++ {
			switch {
			case (e.kind == "d" || e.kind == "f") && caps.userXattr:
				e.xa = append(e.xa, [2]string{"user." + keys[i], string(randBytes(rng, rng.Intn(12)))})
			case e.kind == "l" && caps.linkXattr:
				e.xa = append(e.xa, [2]string{"trusted." + keys[i], string(randBytes(rng, rng.Intn(12)))})
			}
		}
	}
	rootRel := "src"
	root := lfsEntry{p: mk(rootRel), kind: "d"}
	attrs(&root)
	ents = append(ents, root)
	budget := 4 + rng.Intn(40)
	var fill func(dir string, depth int, onTmpfs bool)
	fill = func(dir string, depth int, onTmpfs bool) {
		names := append([]string{}, lfsNamePool...)
		rng.Shuffle(len(names), func(i, j int) { names[i], names[j] = names[j], names[i] })
		n := 1 + rng.Intn(9)
		if depth < 4 && rng.Intn(3) == 0 {
			// the ordering trap: a directory "a" with children next to "a-b", "a.d", "a0"
			names = append([]string{"a", "a-b", "a.d", "a0"}, names...)
			if n < 4 {
				n = 4
			}
		}
		seen := map[string]bool{}
		for _, nm := range names {
			if n == 0 || budget <= 0 {
				break
			}
			if seen[nm] {
				continue
			}
			seen[nm] = true
			n--
			budget--
			e := lfsEntry{p: mk(dir + "/" + nm)}
			k := rng.Intn(20)
			switch {
			case k < 6 && depth < 6 || (nm == "a" && depth < 5):
				e.kind = "d"
			case k < 12:
				e.kind, e.data = "f", randBytes(rng, rng.Intn(3)*rng.Intn(400))
			case k < 16:
				e.kind = "l"
				e.data = [][]byte{[]byte("a"), []byte("."), []byte(".."), []byte("../a"), []byte(top), []byte("/"), []byte("nowhere/at all"), randBytes(rng, 1+rng.Intn(30))}[rng.Intn(8)]
				for i, b := range e.data {
					if b == 0 {
						e.data[i] = 'x'
					}
				}
			case k < 19 && caps.mknod:
				e.kind, e.typ = "v", []uint32{syscall.S_IFCHR, syscall.S_IFBLK}[rng.Intn(2)]
				e.ma, e.mi = uint32(rng.Intn(4096)), uint32(rng.Intn(1<<20))
				if rng.Intn(3) == 0 {
					e.ma, e.mi = []uint32{0, 1, 255, 256, 4095}[rng.Intn(5)], []uint32{0, 255, 256, 1<<20 - 1, 0xfff00}[rng.Intn(5)]
				}
			case caps.mknod:
				e.kind, e.typ = "v", []uint32{syscall.S_IFIFO, syscall.S_IFSOCK}[rng.Intn(2)]
			default:
				e.kind = "f"
			}
			attrs(&e)
			if onTmpfs {
				e.xa = nil
			}
			ents = append(ents, e)
			if e.kind == "d" {
				sub := onTmpfs
				if wantSkip && caps.mount && len(skip) < 2 && rng.Intn(3) == 0 && plainName(nm) {
					skip = append(skip, e.p)
					sub = true
				}
				if rng.Intn(5) != 0 { // one in five stays empty
					fill(dir+"/"+nm, depth+1, sub)
				}
			}
		}
	}
	fill(rootRel, 1, false)
	// sparse regular files (holes of several blocks before / between / after data), in directories of the root's file system
	for i, shape := range caps.sparse {
		dirs := []string{rootRel}
		for _, e := range ents {
			onMount := false
			for _, s := range skip {
				onMount = onMount || e.p == s || strings.HasPrefix(e.p, s+"/")
			}
			if e.kind == "d" && e.attrs && !onMount && strings.HasPrefix(e.p, mk(rootRel)+"/") {
				dirs = append(dirs, strings.TrimPrefix(e.p, strings.TrimSuffix(mk(rootRel), rootRel)))
			}
		}
		e := lfsEntry{p: mk(dirs[rng.Intn(len(dirs))] + "/" + []string{"sparse.img", "a.raw"}[i%2]), kind: "f", data: sparseContent(rng, caps.sparseBS, shape)}
		attrs(&e)
		ents = append(ents, e)
	}
	// a chain that is at least four levels deep, whatever the dice said
	if rng.Intn(2) == 0 {
		d := rootRel
		for i := 0; i < 4+rng.Intn(3); i++ {
			d += "/" + []string{"deep", "D", "d.d", "d"}[rng.Intn(4)]
			dup := false
			for _, e := range ents {
				if e.p == mk(d) {
					dup = true
				}
			}
			if !dup {
				e := lfsEntry{p: mk(d), kind: "d"}
				attrs(&e)
				ents = append(ents, e)
			}
		}
	}
	// next to the tree: a link to it and a link to the directory above it (roots that go through links)
	for _, l := range [][2]string{{"to-src", "src"}, {"to-top", "."}, {"dangling", "gone"}} {
		e := lfsEntry{p: mk(l[0]), kind: "l", data: []byte(l[1])}
		attrs(&e)
		e.xa = nil
		ents = append(ents, e)
	}
	return ents, mk(rootRel), skip
}

// a mount point's name must survive the check script's own clean-up of /proc/mounts (it undoes \\040 only)
func plainName(s string) bool {
	for _, c := range []byte(s) {
		if !(c >= 'a' && c <= 'z' || c >= 'A' && c <= 'Z' || c >= '0' && c <= '9' || c == '.' || c == '-' || c == '_') {
			return false
		}
	}
	return len(s) < 100
}

func lfsReadLine(top, root string, nt, ofs bool, skip []string, ents []lfsEntry) string {
	es := make([]string, len(ents))
	for i, e := range ents {
		es[i] = e.String()
	}
	hs := make([]string, len(skip))
	for i, s := range skip {
		hs[i] = hx([]byte(s))
	}
	return fmt.Sprintf("lfs.read top=%s root=%s nt=%d ofs=%d mnt=%s fs=%s", hx([]byte(top)), hx([]byte(root)), b2i(nt), b2i(ofs),
		strings.Join(hs, ","), strings.Join(es, ";"))
}

// drop one entry (with everything beneath it) at a time
func shrinkLfsRead(line string) []string {
	_, a := parseCase(line)
	if a["fs"] == "" {
		return nil
	}
	es := strings.Split(a["fs"], ";")
	var out []string
	for i := len(es) - 1; i >= 0; i-- {
		e, ok := parseLfsEntry(es[i])
		if !ok || !e.attrs {
			continue
		}
		var keep []string
		for j, s := range es {
			o, _ := parseLfsEntry(s)
			if j == i || strings.HasPrefix(o.p, e.p+"/") {
				continue
			}
			keep = append(keep, s)
		}
		b := kv{}
		for k, v := range a {
			b[k] = v
		}
		b["fs"] = strings.Join(keep, ";")
		out = append(out, buildCase("lfs.read", b, "top", "root", "nt", "ofs", "mnt", "fs", "tar"))
		if len(out) >= 40 {
			break
		}
	}
	return out
}

func implLfsClean(line string) string {
	_, a := parseCase(line)
	return hx([]byte(path.Clean(string(unhx(a["p"])))))
}

func implLfsSort(line string) string {
	_, a := parseCase(line)
	var ns []string
	if a["names"] != "" {
		for _, h := range strings.Split(a["names"], ",") {
			ns = append(ns, string(unhx(h)))
		}
	}
	sort.Strings(ns)
	hs := make([]string, len(ns))
	for i, n := range ns {
		hs[i] = hx([]byte(n))
	}
	return strings.Join(hs, ",")
}

// lfsReadCases is called from runC05 (n trees, every field) and runC13 (the order of the record stream is what the archive's
// element order is made of)
func lfsReadCases(cfg Config, rep *Report, m *Model, rng *rand.Rand, n int) {
	if m.cmd == nil {
		return
	}
	// path.Clean and the sort, on their own
	alpha := []byte("/./a.b")
	for it := 0; it < n*4; it++ {
		b := make([]byte, rng.Intn(14))
		for i := range b {
			b[i] = alpha[rng.Intn(len(alpha))]
		}
		line := "lfs.clean p=" + hx(b)
		rep.Compare(m, line, implLfsClean, nil)
		rep.Count(line, len(b) > 2, "lfsread:clean")
		if filepath.Clean(string(b)) != path.Clean(string(b)) {
			rep.Disagree(Disagreement{Kind: "monitor", Case: line, What: "filepath.Clean and path.Clean differ on this platform (the model takes them for one function)"})
		}
	}
	for it := 0; it < n; it++ {
		names := append([]string{}, lfsNamePool...)
		rng.Shuffle(len(names), func(i, j int) { names[i], names[j] = names[j], names[i] })
		names = names[:rng.Intn(len(names))]
		hs := make([]string, len(names))
		for i, s := range names {
			hs[i] = hx([]byte(s))
		}
		line := "lfs.sort names=" + strings.Join(hs, ",")
		rep.Compare(m, line, implLfsSort, nil)
		rep.Count(line, len(names) > 1, "lfsread:sort")
	}
	top := filepath.Join(cfg.Work, "lfsread", "t")
	caps := probeLfsCaps(filepath.Join(cfg.Work, "lfsread", "probe"))
	caps.sparseBS = sparseProbe(filepath.Join(cfg.Work, "lfsread", "probe"))
	rep.Histogram[fmt.Sprintf("lfsread:caps mknod=%v chown=%v userxattr=%v linkxattr=%v mount=%v sparse-block=%d", caps.mknod, caps.chown, caps.userXattr, caps.linkXattr, caps.mount, caps.sparseBS)]++
	for it := 0; it < n; it++ {
		rel := rng.Intn(3) == 0
		wantSkip := it%4 == 3
		caps.sparse = nil
		if caps.sparseBS > 0 && it%2 == 0 { // every other tree has a sparse file, the shapes in turn; one in three a second one
			caps.sparse = []int{(it / 2) % len(sparseShapeNames)}
			if rng.Intn(3) == 0 {
				caps.sparse = append(caps.sparse, rng.Intn(len(sparseShapeNames)))
			}
		}
		ents, rootReal, skip := genLfsTree(rng, top, rel, caps, wantSkip)
		nt := rng.Intn(4) == 0
		ofs := rng.Intn(6) == 0
		if len(skip) > 0 {
			ofs = rng.Intn(4) != 0 // without the option the mount points are walked into
		}
		base := filepath.Dir(rootReal)
		join := func(b, s string) string {
			if b == "." || b == "" {
				return s
			}
			return b + "/" + s
		}
		variants := []string{rootReal, rootReal + "/", join(base, "./src"), join(base, "src//"), join(base, "src/../src"), join(base, "to-src/"),
			join(base, "to-top/src"), join(base, "src/."), join(base, "to-top/to-top/src/a/..")}
		root := variants[0]
		if rng.Intn(2) == 0 {
			root = variants[rng.Intn(len(variants))]
		}
		switch rng.Intn(25) {
		case 0:
			root = join(base, "to-src") // the root is a symbolic link: one record
		case 1:
			root = join(base, "gone") // does not exist
		case 2:
			root = join(base, "dangling/")
		}
		line := lfsReadLine(top, root, nt, ofs, skip, ents)
		if d := os.Getenv("VERIF_LFSREAD_DUMP"); d != "" { // debugging aid: the case lines, one per line
			if f, err := os.OpenFile(d, os.O_APPEND|os.O_CREATE|os.O_WRONLY, 0644); err == nil {
				fmt.Fprintln(f, line)
				f.Close()
			}
		}
		if len(caps.sparse) > 0 {
			sparseMonitor(rep, line, ents)
		}
		rep.Compare(m, line, implLfsRead, shrinkLfsRead)
		if it%3 == 0 || len(caps.sparse) > 0 { // the same tree end to end: Tar(LocalFS) bytes against tarStream of the model's record stream
			rep.Compare(m, line+" tar=1", implLfsRead, shrinkLfsRead)
			rep.Count(line+" tar=1", len(ents) >= 6, "lfsread:tar-from-disk")
		}
		tags := []string{"lfsread:tree", "lfsread:entries:" + bucket(len(ents))}
		if rel {
			tags = append(tags, "lfsread:relative-root")
		}
		if nt {
			tags = append(tags, "lfsread:notime")
		}
		if len(skip) > 0 {
			tags = append(tags, "lfsread:one-file-system")
		}
		if root != rootReal {
			tags = append(tags, "lfsread:root-variant")
		}
		for _, s := range caps.sparse {
			tags = append(tags, "lfsread:sparse-file:"+sparseShapeNames[s])
		}
		rep.Count(line, len(ents) >= 6, tags...)
	}
	os.RemoveAll(filepath.Join(cfg.Work, "lfsread"))
}
