package main

// Trace validation of FailoverGroup and SwapStore / SwapWriteStore (C11): the real wrappers run
// under a cooperative scheduler installed through the verifChain hooks of failover.go and
// swapstore.go (build tag verif) and through the scripted member stores below — exactly one
// goroutine runs between two hook calls — and the recorded, totally ordered event list is replayed
// through the Lean step machines (driver commands failover.accept / swap.accept).
//
// Blocking happens inside sync.RWMutex, where there is no hook.  The scheduler therefore never lets a
// goroutine into a Lock/RLock that would block: every goroutine announces its intent before the call
// and stays parked in that hook until the lock is available according to the trace so far (who has
// reported "rlocked"/"locked" and not yet "runlocked"/"unlocked", and — Go's writer preference — whether
// a writer has announced itself).  Whether a goroutine may proceed is derived from the trace alone; no
// time-out decides anything (a time-out only ends a run in which the implementation did not follow
// its own announcements, which is reported).  Schedules are drawn from the case PRNG (or forced from
// a replay), so every run is reproducible.

import (
	"errors"
	"fmt"
	"math/rand"
	"strconv"
	"strings"
	"sync"
	"sync/atomic"
	"time"

	"github.com/folbricht/desync"
)

type coopArrival struct {
	t    int
	ev   string
	a, b int
	peer desync.Store
}

type coopSched struct {
	mu     sync.Mutex
	gids   map[int]int
	arrive chan coopArrival
	resume []chan struct{}
	free   atomic.Bool
}

func newCoopSched(k int) *coopSched {
	s := &coopSched{gids: map[int]int{}, arrive: make(chan coopArrival, 4*k+4), resume: make([]chan struct{}, k)}
	for i := range s.resume {
		s.resume[i] = make(chan struct{}, 1)
	}
	return s
}

// actor returns the caller the current goroutine runs for (-1: none)
func (s *coopSched) actor() int {
	g := goid()
	s.mu.Lock()
	defer s.mu.Unlock()
	if t, ok := s.gids[g]; ok {
		return t
	}
	return -1
}

// hook is a scheduling point: report the event, park until resumed
func (s *coopSched) hook(ev string, a, b int, peer desync.Store) {
	if s.free.Load() {
		return
	}
	t := s.actor()
	if t < 0 {
		return
	}
	s.arrive <- coopArrival{t, ev, a, b, peer}
	<-s.resume[t]
}

// coopStall ends a run in which a resumed goroutine neither reaches its next hook nor returns (it can only be
// stuck inside a mutex the trace says is free, i.e. the code did not follow its own announcements): the run is
// reported, nothing is scheduled on the strength of a time-out
const coopStall = 10 * time.Second

type coopRun struct {
	events  []string
	order   []int
	problem string // "" | "hang@k …" | "deadlock …" | "diverged@k …" | other
}

func siteKind(ev string) string {
	for _, k := range []string{"want.r", "rlocked", "runlocked", "want.w", "locked", "unlocked"} {
		if strings.HasSuffix(ev, "."+k) {
			return k
		}
	}
	return ""
}

// runChainCoop runs k actors (body(t) is the call under test; it returns when the call has returned)
// under a schedule: forced (the actor resumed at each step) if not nil, else drawn from rng with the
// given policy.  note turns an arrival into the trace event ("" = none); it is called in trace order.
func runChainCoop(s *coopSched, k int, body func(t int), wp bool, rng *rand.Rand, policy int, forced []int, note func(a coopArrival) string) coopRun {
	var res coopRun
	desync.VerifChain = func(obj interface{}, ev string, a, b int, peer desync.Store) { s.hook(ev, a, b, peer) }
	for t := 0; t < k; t++ {
		t := t
		go func() {
			s.mu.Lock()
			s.gids[goid()] = t
			s.mu.Unlock()
			s.arrive <- coopArrival{t: t, ev: "start"}
			<-s.resume[t]
			body(t)
			if !s.free.Load() {
				s.arrive <- coopArrival{t: t, ev: "fin"}
			}
		}()
	}
	release := func() {
		s.free.Store(true)
		for _, ch := range s.resume {
			select {
			case ch <- struct{}{}:
			default:
			}
		}
		time.Sleep(200 * time.Microsecond)
		desync.VerifChain = nil
	}
	timeout := time.NewTimer(coopStall)
	defer timeout.Stop()
	wait := func() (coopArrival, bool) {
		if !timeout.Stop() {
			select {
			case <-timeout.C:
			default:
			}
		}
		timeout.Reset(coopStall)
		select {
		case a := <-s.arrive:
			return a, true
		case <-timeout.C:
			return coopArrival{}, false
		}
	}
	parked := make([]string, k) // the site each actor is parked at ("" = running / finished)
	finished := make([]bool, k)
	steps := make([]int, k)
	readers := map[int]bool{}
	pending := map[int]bool{}
	writer := -1
	record := func(a coopArrival) {
		switch siteKind(a.ev) {
		case "rlocked":
			readers[a.t] = true
		case "runlocked":
			delete(readers, a.t)
		case "want.w":
			pending[a.t] = true
		case "locked":
			delete(pending, a.t)
			writer = a.t
		case "unlocked":
			if writer == a.t {
				writer = -1
			}
		}
		if a.ev == "fin" {
			finished[a.t] = true
			parked[a.t] = ""
		} else {
			parked[a.t] = a.ev
		}
		if a.ev != "start" {
			if e := note(a); e != "" {
				res.events = append(res.events, e)
			}
		}
	}
	for n := 0; n < k; n++ {
		a, ok := wait()
		if !ok || a.ev != "start" {
			res.problem = "hang@start"
			release()
			return res
		}
		record(a)
	}
	enabled := func(t int) bool {
		if parked[t] == "" {
			return false
		}
		switch siteKind(parked[t]) {
		case "want.r":
			return writer < 0 && (!wp || len(pending) == 0)
		case "want.w":
			return writer < 0 && len(readers) == 0
		}
		return true
	}
	prio := rng.Perm(k)
	change := map[int]bool{}
	for c := 0; c < 3; c++ {
		change[rng.Intn(60+20*k)] = true
	}
	low := -1
	last := -1
	for step := 0; ; step++ {
		var en []int
		done := true
		for t := 0; t < k; t++ {
			if !finished[t] {
				done = false
			}
			if enabled(t) {
				en = append(en, t)
			}
		}
		if done {
			break
		}
		if len(en) == 0 {
			res.problem = fmt.Sprintf("deadlock@%d: no caller can proceed (parked at %v)", step, parked)
			break
		}
		pick := en[0]
		if forced != nil {
			if step >= len(forced) {
				res.problem = fmt.Sprintf("diverged@%d (schedule exhausted)", step)
				break
			}
			pick = forced[step]
			if pick < 0 || pick >= k || !enabled(pick) {
				res.problem = fmt.Sprintf("diverged@%d (caller %d cannot proceed)", step, pick)
				break
			}
		} else {
			switch policy {
			case 0: // uniform
				pick = en[rng.Intn(len(en))]
			case 1: // priorities with change points
				for _, t := range en {
					if prio[t] > prio[pick] {
						pick = t
					}
				}
				if change[step] {
					low--
					prio[pick] = low
				}
			case 2: // bursts: stay with the caller that ran last
				pick = en[rng.Intn(len(en))]
				if last >= 0 && enabled(last) && rng.Intn(5) != 0 {
					pick = last
				}
			default: // lockstep: whoever is furthest behind (all callers meet at the same sites)
				var best []int
				for _, t := range en {
					if len(best) == 0 || steps[t] < steps[best[0]] {
						best = []int{t}
					} else if steps[t] == steps[best[0]] {
						best = append(best, t)
					}
				}
				pick = best[rng.Intn(len(best))]
				if rng.Intn(10) == 0 {
					pick = en[rng.Intn(len(en))]
				}
			}
		}
		last = pick
		steps[pick]++
		res.order = append(res.order, pick)
		parked[pick] = ""
		s.resume[pick] <- struct{}{}
		a, ok := wait()
		if !ok {
			res.problem = fmt.Sprintf("hang@%d: caller %d was let into a lock that is free according to its own announcements and did not come back", step, pick)
			break
		}
		if a.t != pick {
			res.problem = fmt.Sprintf("scheduler@%d: resumed caller %d, but caller %d arrived (%s)", step, pick, a.t, a.ev)
			break
		}
		record(a)
	}
	release()
	return res
}

func forcedFromEvents(events string) []int {
	var forced []int
	if events == "" {
		return forced
	}
	for _, e := range strings.Split(events, ",") {
		p := strings.Split(e, ":")
		if len(p) < 2 {
			continue
		}
		t, _ := strconv.Atoi(p[1])
		forced = append(forced, t)
	}
	return forced
}

// ------------------------------------------------------------------------------------------------
// failover

// foMember is a scripted member of a failover group.  Every call is a scheduling point; its outcome
// follows the member's script by call number: 'a' answer by content, 'e' fail, 'm' (HasChunk only) fail
// with a ChunkMissing error
type foMember struct {
	s      *coopSched
	idx    int
	has    [2]bool
	script string
	calls  int
	served map[int]string // caller -> what the member returned to it last
}

func foID(i int) desync.ChunkID { var id desync.ChunkID; id[0] = 0xf0; id[1] = byte(i); return id }

func (m *foMember) next() byte {
	c := m.script[m.calls%len(m.script)]
	m.calls++
	return c
}

func (m *foMember) GetChunk(id desync.ChunkID) (*desync.Chunk, error) {
	t := m.s.actor()
	c := m.next()
	m.s.hook("ca", m.idx, 0, nil)
	switch {
	case c != 'a':
		m.served[t] = "e"
		return nil, errors.New("scripted member failure")
	case m.has[id[1]&1]:
		m.served[t] = "c"
		return desync.NewChunkWithID(id, []byte(fmt.Sprintf("member-%d-chunk-%d", m.idx, id[1])), true)
	default:
		m.served[t] = "m"
		return nil, desync.ChunkMissing{ID: id}
	}
}

func (m *foMember) HasChunk(id desync.ChunkID) (bool, error) {
	t := m.s.actor()
	c := m.next()
	m.s.hook("ca", m.idx, 0, nil)
	switch c {
	case 'a':
		if m.has[id[1]&1] {
			m.served[t] = "y"
		} else {
			m.served[t] = "n"
		}
		return m.has[id[1]&1], nil
	case 'm':
		m.served[t] = "m"
		return false, desync.ChunkMissing{ID: id}
	default:
		m.served[t] = "e"
		return false, errors.New("scripted member failure")
	}
}
func (m *foMember) Close() error   { return nil }
func (m *foMember) String() string { return fmt.Sprintf("member-%d", m.idx) }

type foCase struct {
	n, h   int
	wp, tr bool
	reqs   []string // G1 G0 H1 H0
	mem    []string // "<has0><has1>/<script>"
}

func (c foCase) line(events []string) string {
	return fmt.Sprintf("failover.accept n=%d h=%d wp=%d tr=%d reqs=%s members=%s events=%s", c.n, c.h, b2i(c.wp), b2i(c.tr),
		strings.Join(c.reqs, ","), strings.Join(c.mem, ";"), strings.Join(events, ","))
}

type foResult struct {
	run      coopRun
	answer   string   // what failover.accept must say
	results  []string // per caller: ok:c@2 | failed | …
	mismatch string   // an inconsistency between what the hooks and the members reported
}

// runFailover runs the case on a real FailoverGroup under a schedule
func runFailover(c foCase, rng *rand.Rand, policy int, forced []int) foResult {
	k := len(c.reqs)
	members := make([]*foMember, c.n)
	stores := make([]desync.Store, c.n)
	results := make([]string, k)
	lastMember := make([]int, k)
	lastEv := make([]string, k)
	active := 0
	var out foResult
	var g *desync.FailoverGroup
	body := func(t int) {
		id := foID(int(c.reqs[t][1] - '0'))
		if c.reqs[t][0] == 'G' {
			ch, err := g.GetChunk(id)
			switch {
			case err == nil && ch != nil:
				b, _ := ch.Data()
				var mi, ci int
				if n, _ := fmt.Sscanf(string(b), "member-%d-chunk-%d", &mi, &ci); n != 2 || ci != int(id[1]) || ch.ID() != id {
					results[t] = "wrong-chunk"
				} else {
					results[t] = fmt.Sprintf("ok:c@%d", mi)
				}
			case err == nil:
				results[t] = "nil-nil"
			default:
				if _, ok := err.(desync.ChunkMissing); ok {
					results[t] = "ok:m"
				} else {
					results[t] = "failed"
				}
			}
		} else {
			b, err := g.HasChunk(id)
			switch {
			case err != nil:
				results[t] = "failed"
			case b:
				results[t] = "ok:y"
			default:
				results[t] = "ok:n"
			}
		}
	}
	note := func(a coopArrival) string {
		t := a.t
		e := ""
		switch a.ev {
		case "fo.want.r":
			e = fmt.Sprintf("wr:%d", t)
		case "fo.rlocked":
			e = fmt.Sprintf("rl:%d:%d", t, a.a)
			if a.a < 0 || a.a >= c.n || a.peer != stores[a.a] {
				out.mismatch = fmt.Sprintf("current() read index %d but another store", a.a)
			}
		case "fo.runlocked":
			e = fmt.Sprintf("ru:%d", t)
		case "ca":
			e = fmt.Sprintf("ca:%d:%d", t, a.a)
			lastMember[t] = a.a
		case "fo.ret":
			o := []string{"c", "y", "m", "e"}[a.b&3]
			if a.b == 0 && c.reqs[t][0] == 'H' {
				o = "n"
			}
			e = fmt.Sprintf("rt:%d:%s", t, o)
			if m := members[lastMember[t]]; m.served[t] != o {
				out.mismatch = fmt.Sprintf("member %d returned %q to caller %d, the group saw %q", m.idx, m.served[t], t, o)
			}
			if a.peer != stores[lastMember[t]] {
				out.mismatch = fmt.Sprintf("caller %d called member %d, the group holds another store for it", t, lastMember[t])
			}
		case "fo.want.w":
			e = fmt.Sprintf("ww:%d:%d", t, a.a)
		case "fo.locked":
			e = fmt.Sprintf("lk:%d", t)
		case "fo.stale":
			e = fmt.Sprintf("ef:%d:0:%d", t, a.b)
			active = a.b
		case "fo.advanced":
			e = fmt.Sprintf("ef:%d:1:%d", t, a.b)
			active = a.b
		case "fo.unlocked":
			e = fmt.Sprintf("ul:%d", t)
		case "fin":
			if lastEv[t] == "fo.unlocked" || lastEv[t] == "" {
				e = fmt.Sprintf("gu:%d", t)
			} else {
				e = fmt.Sprintf("fi:%d", t)
			}
		default:
			e = fmt.Sprintf("unknown-%s:%d", a.ev, t)
		}
		lastEv[t] = a.ev
		return e
	}
	s := newCoopSched(k)
	for i := 0; i < c.n; i++ {
		parts := strings.SplitN(c.mem[i], "/", 2)
		members[i] = &foMember{s: s, idx: i, has: [2]bool{parts[0][0] == '1', parts[0][1] == '1'}, script: parts[1], served: map[int]string{}}
		stores[i] = members[i]
	}
	g = desync.NewFailoverGroup(stores...)
	out.run = runChainCoop(s, k, body, c.wp, rng, policy, forced, note)
	out.results = results
	for t := range results {
		if results[t] == "ok:m" || results[t] == "ok:y" || results[t] == "ok:n" {
			results[t] += fmt.Sprintf("@%d", lastMember[t])
		}
	}
	if out.run.problem != "" {
		out.answer = "impl-" + out.run.problem
	} else {
		out.answer = fmt.Sprintf("accept final=%s active=%d", strings.Join(results, ","), active)
	}
	return out
}

func foAnswerOK(c foCase, results []string) string {
	// monitors that do not need the model: with a healthy member nobody fails; replicas tell the truth
	for t, r := range results {
		if !strings.HasPrefix(r, "ok:") {
			return fmt.Sprintf("caller %d (%s) of a failover group with a healthy member (%d of %d) got %q", t, c.reqs[t], c.h, c.n, r)
		}
		if c.tr || strings.HasSuffix(r, fmt.Sprintf("@%d", c.h)) {
			want := map[string]string{"G1": "ok:c", "G0": "ok:m", "H1": "ok:y", "H0": "ok:n"}[c.reqs[t]]
			if !strings.HasPrefix(r, want+"@") {
				if want == "ok:m" || want == "ok:n" {
					return fmt.Sprintf("caller %d (%s): a chunk that no member has was not reported missing: %q", t, c.reqs[t], r)
				}
				return fmt.Sprintf("caller %d (%s): a chunk that every answering member has was reported %q", t, c.reqs[t], r)
			}
		}
	}
	return ""
}

func parseFoCase(line string) foCase {
	_, a := parseCase(line)
	var c foCase
	c.n, _ = strconv.Atoi(a["n"])
	c.h, _ = strconv.Atoi(a["h"])
	c.wp = a["wp"] == "1"
	c.tr = a["tr"] == "1"
	c.reqs = strings.Split(a["reqs"], ",")
	c.mem = strings.Split(a["members"], ";")
	return c
}

// implFailoverAccept re-runs the schedule of a recorded trace on the real code (replay)
func implFailoverAccept(line string) string {
	_, a := parseCase(line)
	c := parseFoCase(line)
	if len(c.mem) != c.n || c.n == 0 {
		return "bad-case"
	}
	r := runFailover(c, rand.New(rand.NewSource(1)), 0, forcedFromEvents(a["events"]))
	if r.mismatch != "" {
		return "impl-mismatch " + r.mismatch
	}
	if got := strings.Join(r.run.events, ","); r.run.problem == "" && got != a["events"] {
		return "impl-other-trace " + got
	}
	return r.answer
}

// ------------------------------------------------------------------------------------------------
// swap

type swLog struct {
	closes []string // "<store>:<caller>" in the order the stores were closed
}

// swStore is a member of a SwapStore: entry, return and Close are scheduling points; it records who
// used it and whether it was used after it had been closed
type swStore struct {
	s      *coopSched
	id     int
	closed int
	late   []string
	served map[int]bool
	log    *swLog
}

func (st *swStore) call(what string) error {
	t := st.s.actor()
	st.served[t] = true
	if st.closed > 0 {
		st.late = append(st.late, fmt.Sprintf("%s by caller %d entered after the close", what, t))
	}
	st.s.hook("en", st.id, 0, nil)
	st.s.hook("ex", st.id, 0, nil)
	if st.closed > 0 {
		st.late = append(st.late, fmt.Sprintf("%s by caller %d was in flight when the store was closed", what, t))
		return errors.New("store closed")
	}
	return nil
}

func (st *swStore) GetChunk(id desync.ChunkID) (*desync.Chunk, error) {
	if err := st.call("GetChunk"); err != nil {
		return nil, err
	}
	if id[1]&1 == 0 {
		return nil, desync.ChunkMissing{ID: id}
	}
	return desync.NewChunkWithID(id, []byte(fmt.Sprintf("swstore-%d", st.id)), true)
}
func (st *swStore) HasChunk(id desync.ChunkID) (bool, error) {
	if err := st.call("HasChunk"); err != nil {
		return false, err
	}
	return id[1]&1 == 1, nil
}
func (st *swStore) String() string {
	st.call("String")
	return fmt.Sprintf("swstore-%d", st.id)
}
func (st *swStore) Close() error {
	t := st.s.actor()
	st.closed++
	st.log.closes = append(st.log.closes, fmt.Sprintf("%d:%d", st.id, t))
	st.s.hook("cl", st.id, 0, nil)
	return nil
}

type swWStore struct{ *swStore }

func (st swWStore) StoreChunk(c *desync.Chunk) error { return st.call("StoreChunk") }

type swCase struct {
	w0, wp, ws bool
	roles      []string // G H T S C W1 W0
}

func (c swCase) line(events []string) string {
	return fmt.Sprintf("swap.accept w0=%d wp=%d ws=%d roles=%s events=%s", b2i(c.w0), b2i(c.wp), b2i(c.ws), strings.Join(c.roles, ","), strings.Join(events, ","))
}

type swResult struct {
	run      coopRun
	answer   string
	results  []string
	monitor  string          // a property violation seen without the model
	shapes   map[string]bool // what happened in this trace
	mismatch string
}

func runSwap(c swCase, rng *rand.Rand, policy int, forced []int) swResult {
	k := len(c.roles)
	s := newCoopSched(k)
	log := &swLog{}
	all := map[int]*swStore{}
	mk := func(id int, writable bool) desync.Store {
		st := &swStore{s: s, id: id, served: map[int]bool{}, log: log}
		all[id] = st
		if writable {
			return swWStore{st}
		}
		return st
	}
	sidOf := func(p desync.Store) int {
		switch x := p.(type) {
		case *swStore:
			return x.id
		case swWStore:
			return x.id
		}
		return -1
	}
	type swapStore interface {
		desync.Store
		Swap(desync.Store) error
	}
	var sw swapStore
	var wsw *desync.SwapWriteStore
	if c.ws {
		wsw = desync.NewSwapWriteStore(mk(0, c.w0))
		sw = wsw
	} else {
		sw = desync.NewSwapStore(mk(0, c.w0))
	}
	out := swResult{shapes: map[string]bool{}}
	results := make([]string, k)
	errs := make([]error, k)
	body := func(t int) {
		defer func() {
			if r := recover(); r != nil {
				results[t] = "panicked"
			}
		}()
		switch c.roles[t] {
		case "G":
			_, err := sw.GetChunk(foID(t))
			if _, ok := err.(desync.ChunkMissing); !ok {
				errs[t] = err
			}
			results[t] = "done"
		case "H":
			_, errs[t] = sw.HasChunk(foID(t))
			results[t] = "done"
		case "T":
			_ = sw.String()
			results[t] = "done"
		case "S":
			errs[t] = wsw.StoreChunk(desync.NewChunk([]byte{byte(t), 1, 2}))
			results[t] = "done"
		case "C":
			errs[t] = sw.Close()
			results[t] = "done"
		case "W1", "W0":
			if err := sw.Swap(mk(t+1, c.roles[t] == "W1")); err != nil {
				results[t] = "refused"
			} else {
				results[t] = "swapped"
			}
		}
	}
	lastRead := make([]int, k)
	inflight := map[int]bool{}
	writing := map[int]bool{}
	note := func(a coopArrival) string {
		t := a.t
		switch a.ev {
		case "sw.want.r":
			if len(writing) > 0 {
				out.shapes["request-arrives-during-swap"] = true
			}
			return fmt.Sprintf("wr:%d", t)
		case "sw.rlocked":
			lastRead[t] = sidOf(a.peer)
			inflight[t] = true
			return fmt.Sprintf("rl:%d:%d", t, sidOf(a.peer))
		case "en":
			return fmt.Sprintf("en:%d:%d", t, a.a)
		case "ex":
			return fmt.Sprintf("ex:%d:%d", t, a.a)
		case "cl":
			if c.roles[t] == "C" {
				return fmt.Sprintf("cu:%d:%d", t, a.a)
			}
			return fmt.Sprintf("co:%d:%d", t, a.a)
		case "sw.runlocked":
			delete(inflight, t)
			return fmt.Sprintf("ru:%d", t)
		case "sw.want.w":
			writing[t] = true
			if len(inflight) > 0 {
				out.shapes["swap-arrives-during-request"] = true
			}
			if len(writing) > 1 {
				out.shapes["two-swaps-overlap"] = true
			}
			return fmt.Sprintf("ww:%d", t)
		case "sw.locked":
			return fmt.Sprintf("lk:%d", t)
		case "sw.refused":
			out.shapes["swap-refused"] = true
			return fmt.Sprintf("rf:%d", t)
		case "sw.installed":
			return fmt.Sprintf("in:%d:%d", t, sidOf(a.peer))
		case "sw.unlocked":
			delete(writing, t)
			return fmt.Sprintf("ul:%d", t)
		case "fin":
			return fmt.Sprintf("fi:%d", t)
		}
		return fmt.Sprintf("unknown-%s:%d", a.ev, t)
	}
	out.run = runChainCoop(s, k, body, c.wp, rng, policy, forced, note)
	out.results = results
	if out.run.problem != "" {
		out.answer = "impl-" + out.run.problem
		return out
	}
	// what the stores saw
	var closedSwap, closedUser []string
	userClosed := map[int]bool{}
	for _, cl := range log.closes {
		p := strings.Split(cl, ":")
		t, _ := strconv.Atoi(p[1])
		sid, _ := strconv.Atoi(p[0])
		if c.roles[t] == "C" {
			closedUser = append(closedUser, p[0])
			userClosed[sid] = true
		} else {
			closedSwap = append(closedSwap, p[0])
		}
	}
	fin := make([]string, k)
	for t := range results {
		fin[t] = results[t]
		switch c.roles[t] {
		case "W1", "W0":
		case "C":
			for _, cl := range log.closes {
				p := strings.Split(cl, ":")
				if p[1] == strconv.Itoa(t) {
					fin[t] += "@" + p[0]
				}
			}
		default:
			if results[t] == "panicked" {
				fin[t] += fmt.Sprintf("@%d", lastRead[t])
				out.shapes["store-panics"] = true
				break
			}
			for sid := 0; sid <= k; sid++ {
				if st := all[sid]; st != nil && st.served[t] {
					fin[t] += fmt.Sprintf("@%d", sid)
				}
			}
		}
	}
	installed := strings.TrimPrefix(sw.String(), "swstore-") // the scheduler is off now: a plain call
	out.answer = fmt.Sprintf("accept final=%s closed=%s user=%s installed=%s", strings.Join(fin, ","), strings.Join(closedSwap, "."),
		strings.Join(closedUser, "."), installed)
	// monitors
	for sid, st := range all {
		if len(st.late) > 0 && !userClosed[sid] {
			out.monitor = fmt.Sprintf("store %d was used after Swap had closed it: %s", sid, st.late[0])
		}
		if st.closed > 1 {
			out.shapes["store-closed-twice"] = true
		}
	}
	for t, err := range errs {
		if err != nil && out.monitor == "" {
			ranOnUserClosed := false
			for sid, st := range all {
				if st.served[t] && userClosed[sid] {
					ranOnUserClosed = true
				}
			}
			if !ranOnUserClosed {
				out.monitor = fmt.Sprintf("request %d (%s) failed while the store was swapped: %v", t, c.roles[t], err)
			}
		}
	}
	if len(closedUser) > 0 {
		out.shapes["wrapper-closed"] = true
	}
	return out
}

func parseSwCase(line string) swCase {
	_, a := parseCase(line)
	return swCase{w0: a["w0"] == "1", wp: a["wp"] == "1", ws: a["ws"] == "1", roles: strings.Split(a["roles"], ",")}
}

// implSwapAccept re-runs the schedule of a recorded trace on the real code (replay)
func implSwapAccept(line string) string {
	_, a := parseCase(line)
	c := parseSwCase(line)
	r := runSwap(c, rand.New(rand.NewSource(1)), 0, forcedFromEvents(a["events"]))
	if got := strings.Join(r.run.events, ","); r.run.problem == "" && got != a["events"] {
		return "impl-other-trace " + got
	}
	return r.answer
}

// ------------------------------------------------------------------------------------------------

func genFoCase(rng *rand.Rand) foCase {
	c := foCase{n: 2 + rng.Intn(3), wp: rng.Intn(4) != 0}
	c.h = rng.Intn(c.n)
	c.tr = rng.Intn(3) != 0
	truth := "01" // chunk 0 is missing everywhere, chunk 1 exists
	for i := 0; i < c.n; i++ {
		if i == c.h {
			c.mem = append(c.mem, truth+"/a")
			continue
		}
		has := truth
		if !c.tr {
			has = []string{"01", "00", "11", "10"}[rng.Intn(4)]
		}
		var sc []byte
		switch rng.Intn(4) {
		case 0: // down
			sc = []byte("e")
		case 1: // fails, then recovers
			for j := 0; j < 1+rng.Intn(3); j++ {
				sc = append(sc, 'e')
			}
			for j := 0; j < 1+rng.Intn(3); j++ {
				sc = append(sc, 'a')
			}
		default:
			for j := 0; j < 2+rng.Intn(5); j++ {
				sc = append(sc, "eeeamma"[rng.Intn(7)])
			}
		}
		c.mem = append(c.mem, has+"/"+string(sc))
	}
	k := 2 + rng.Intn(5)
	for t := 0; t < k; t++ {
		c.reqs = append(c.reqs, []string{"G1", "G1", "G0", "H1", "H0", "H1"}[rng.Intn(6)])
	}
	return c
}

func genSwCase(rng *rand.Rand) swCase {
	c := swCase{wp: rng.Intn(4) != 0, ws: rng.Intn(2) == 0, w0: true}
	if rng.Intn(8) == 0 {
		c.w0 = false
	}
	nreq := 2 + rng.Intn(4)
	for t := 0; t < nreq; t++ {
		ops := "GGHT"
		if c.ws {
			ops = "GHTSSS"
		}
		c.roles = append(c.roles, string(ops[rng.Intn(len(ops))]))
	}
	for t := 0; t < 1+rng.Intn(3); t++ {
		r := "W1"
		if rng.Intn(5) == 0 {
			r = "W0"
		}
		c.roles = append(c.roles, r)
	}
	if rng.Intn(2) == 0 {
		c.roles = append(c.roles, "C")
	}
	rng.Shuffle(len(c.roles), func(i, j int) { c.roles[i], c.roles[j] = c.roles[j], c.roles[i] })
	return c
}

// runC11Conc: scheduled runs of FailoverGroup and SwapStore, validated against the Lean machines
func runC11Conc(cfg Config, rep *Report, m *Model, rng *rand.Rand) {
	problems := 0
	for it := 0; it < cfg.N(340, 8000) && problems < 2; it++ {
		c := genFoCase(rng)
		policy := rng.Intn(4)
		markCase(c.line(nil) + fmt.Sprintf(" policy=%d", policy))
		r := runFailover(c, rng, policy, nil)
		line := c.line(r.run.events)
		stale, adv := 0, 0
		for _, e := range r.run.events {
			if strings.HasPrefix(e, "ef:") {
				if strings.Split(e, ":")[2] == "0" {
					stale++
				} else {
					adv++
				}
			}
		}
		rep.Count(line, adv > 0, "fo-trace", fmt.Sprintf("fo-callers:%d", len(c.reqs)), fmt.Sprintf("fo-members:%d", c.n), fmt.Sprintf("fo-policy:%d", policy),
			"fo-trace-len:"+bucket(len(r.run.events)), fmt.Sprintf("fo-wp:%d", b2i(c.wp)))
		if stale > 0 {
			rep.Histogram["fo-shape:two-callers-fail-over-the-same-member"]++
		}
		if adv >= 2 {
			rep.Histogram["fo-shape:active-moved-twice-or-more"]++
		}
		if adv == 0 {
			rep.Histogram["fo-shape:no-failover"]++
		}
		if r.run.problem != "" {
			problems++
			rep.Disagree(Disagreement{Kind: "monitor", Case: line, Impl: r.answer,
				What: "FailoverGroup under a cooperative schedule: a request did not return: " + r.run.problem})
			continue
		}
		if r.mismatch != "" {
			rep.Disagree(Disagreement{Kind: "monitor", Case: line, Impl: r.answer, What: "FailoverGroup: " + r.mismatch})
			continue
		}
		if what := foAnswerOK(c, r.results); what != "" {
			rep.Disagree(Disagreement{Kind: "monitor", Case: line, Impl: r.answer, What: what})
			continue
		}
		if m.cmd == nil {
			continue
		}
		want := m.Ask(line)
		if want == r.answer {
			rep.Traces++
			continue
		}
		rep.Disagree(Disagreement{Kind: "correspondence", Case: line, Model: want, Impl: r.answer,
			What: "the event trace of FailoverGroup is not a behaviour of the failover machine (or results differ)"})
	}
	problems = 0
	for it := 0; it < cfg.N(240, 6000) && problems < 2; it++ {
		c := genSwCase(rng)
		policy := rng.Intn(4)
		markCase(c.line(nil) + fmt.Sprintf(" policy=%d", policy))
		r := runSwap(c, rng, policy, nil)
		line := c.line(r.run.events)
		rep.Count(line, r.shapes["swap-arrives-during-request"] || r.shapes["request-arrives-during-swap"], "sw-trace",
			fmt.Sprintf("sw-callers:%d", len(c.roles)), fmt.Sprintf("sw-policy:%d", policy), "sw-trace-len:"+bucket(len(r.run.events)), fmt.Sprintf("sw-wp:%d", b2i(c.wp)))
		for sh := range r.shapes {
			rep.Histogram["sw-shape:"+sh]++
		}
		if r.run.problem != "" {
			problems++
			rep.Disagree(Disagreement{Kind: "monitor", Case: line, Impl: r.answer,
				What: "SwapStore under a cooperative schedule: a request did not return: " + r.run.problem})
			continue
		}
		if r.monitor != "" {
			rep.Disagree(Disagreement{Kind: "monitor", Case: line, Impl: r.answer, What: r.monitor})
			continue
		}
		if m.cmd == nil {
			continue
		}
		want := m.Ask(line)
		if want == r.answer {
			rep.Traces++
			continue
		}
		rep.Disagree(Disagreement{Kind: "correspondence", Case: line, Model: want, Impl: r.answer,
			What: "the event trace of SwapStore is not a behaviour of the swap machine (or results differ)"})
	}
}
