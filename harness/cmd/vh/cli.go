package main

// Runs of the real command-line binary (cmd/desync built from the tree under check).  Several properties name
// cmd/desync files among their anchors: the option plumbing and the exit status are part of what a user relies on.

import (
	"bytes"
	"context"
	"fmt"
	"net"
	"net/http"
	"os"
	"os/exec"
	"path/filepath"
	"strings"
	"syscall"
	"time"
)

// desyncBin returns the path of the binary `check` built next to the harness, or "" when it is not there
func desyncBin() string {
	self, _ := os.Executable()
	bin := filepath.Join(filepath.Dir(self), "desync")
	if _, err := os.Stat(bin); err != nil {
		return ""
	}
	return bin
}

type cliResult struct {
	exit           int // -1: did not finish in time
	stdout, stderr string
}

func runCLI(bin string, env []string, stdin []byte, timeout time.Duration, args ...string) cliResult {
	ctx, cancel := context.WithTimeout(context.Background(), timeout)
	defer cancel()
	cmd := exec.CommandContext(ctx, bin, args...)
	cmd.Env = append(append(os.Environ(), "HOME=/nonexistent-home"), env...)
	var so, se bytes.Buffer
	cmd.Stdout, cmd.Stderr = &so, &se
	if stdin != nil {
		cmd.Stdin = bytes.NewReader(stdin)
	}
	err := cmd.Run()
	r := cliResult{stdout: so.String(), stderr: se.String()}
	switch e := err.(type) {
	case nil:
	case *exec.ExitError:
		r.exit = e.ExitCode()
		if ctx.Err() != nil {
			r.exit = -1
		}
	default:
		r.exit = -1
	}
	return r
}

// freePort returns a TCP port on 127.0.0.1 that was free a moment ago
func freePort() int {
	l, err := net.Listen("tcp", "127.0.0.1:0")
	if err != nil {
		return 0
	}
	defer l.Close()
	return l.Addr().(*net.TCPAddr).Port
}

// startServer starts a long-running desync command (chunk-server, index-server) and waits until it accepts
// connections on addr; stop() ends it
func startServer(bin string, env []string, addr string, args ...string) (stop func(), err error) {
	cmd := exec.Command(bin, args...)
	cmd.Env = append(append(os.Environ(), "HOME=/nonexistent-home"), env...)
	var se bytes.Buffer
	cmd.Stderr = &se
	cmd.SysProcAttr = &syscall.SysProcAttr{Setpgid: true}
	if err := cmd.Start(); err != nil {
		return nil, err
	}
	exited := make(chan struct{})
	go func() { cmd.Wait(); close(exited) }()
	stop = func() {
		syscall.Kill(-cmd.Process.Pid, syscall.SIGKILL)
		<-exited
	}
	deadline := time.Now().Add(15 * time.Second)
	for time.Now().Before(deadline) {
		select {
		case <-exited:
			return nil, fmt.Errorf("server exited: %s", strings.TrimSpace(se.String()))
		default:
		}
		if c, err := net.DialTimeout("tcp", addr, 200*time.Millisecond); err == nil {
			c.Close()
			return stop, nil
		}
		time.Sleep(20 * time.Millisecond)
	}
	stop()
	return nil, fmt.Errorf("server did not come up on %s: %s", addr, strings.TrimSpace(se.String()))
}

// httpDo issues one request without keep-alives and returns status and body ("" and -1 on a transport error)
func httpDo(method, url string, hdr map[string]string, body []byte) (int, []byte) {
	req, err := http.NewRequest(method, url, bytes.NewReader(body))
	if err != nil {
		return -1, nil
	}
	for k, v := range hdr {
		req.Header.Set(k, v)
	}
	cl := &http.Client{Transport: &http.Transport{DisableKeepAlives: true}, Timeout: 10 * time.Second}
	resp, err := cl.Do(req)
	if err != nil {
		return -1, nil
	}
	defer resp.Body.Close()
	var b bytes.Buffer
	b.ReadFrom(resp.Body)
	return resp.StatusCode, b.Bytes()
}
