package main

// Runs of the real command-line binary (cmd/desync built from the tree under check).  Several properties name
// cmd/desync files among their anchors: the option plumbing and the exit status are part of what a user relies on.

import (
	"bytes"
	"context"
	"fmt"
	"net"
	"net/http"
	"os"
	"os/exec"
	"path/filepath"
	"strings"
	"sync"
	"syscall"
	"time"
)

// desyncBin returns the path of the binary `check` built next to the harness, or "" when it is not there
func desyncBin() string {
	self, _ := os.Executable()
	bin := filepath.Join(filepath.Dir(self), "desync")
	if _, err := os.Stat(bin); err != nil {
		return ""
	}
	return bin
}

type cliResult struct {
	exit           int // -1: did not finish in time
	stdout, stderr string
}

func runCLI(bin string, env []string, stdin []byte, timeout time.Duration, args ...string) cliResult {
	ctx, cancel := context.WithTimeout(context.Background(), timeout)
	defer cancel()
	cmd := exec.CommandContext(ctx, bin, args...)
	cmd.Env = append(append(os.Environ(), "HOME=/nonexistent-home"), env...)
	var so, se bytes.Buffer
	cmd.Stdout, cmd.Stderr = &so, &se
	if stdin != nil {
		cmd.Stdin = bytes.NewReader(stdin)
	}
	err := cmd.Run()
	r := cliResult{stdout: so.String(), stderr: se.String()}
	switch e := err.(type) {
	case nil:
	case *exec.ExitError:
		r.exit = e.ExitCode()
		if ctx.Err() != nil {
			r.exit = -1
		}
	default:
		r.exit = -1
	}
	return r
}

// freePort returns a TCP port on 127.0.0.1 that was free a moment ago
func freePort() int {
	l, err := net.Listen("tcp", "127.0.0.1:0")
	if err != nil {
		return 0
	}
	defer l.Close()
	return l.Addr().(*net.TCPAddr).Port
}

// startServer starts a long-running desync command (chunk-server, index-server) and waits until it accepts
// connections on addr; stop() ends it
func startServer(bin string, env []string, addr string, args ...string) (stop func(), err error) {
	cmd := exec.Command(bin, args...)
	cmd.Env = append(append(os.Environ(), "HOME=/nonexistent-home"), env...)
	var se bytes.Buffer
	cmd.Stderr = &se
	cmd.SysProcAttr = &syscall.SysProcAttr{Setpgid: true}
	if err := cmd.Start(); err != nil {
		return nil, err
	}
	exited := make(chan struct{})
	go func() { cmd.Wait(); close(exited) }()
	stop = func() {
		syscall.Kill(-cmd.Process.Pid, syscall.SIGKILL)
		<-exited
	}
	deadline := time.Now().Add(15 * time.Second)
	for time.Now().Before(deadline) {
		select {
		case <-exited:
			return nil, fmt.Errorf("server exited: %s", strings.TrimSpace(se.String()))
		default:
		}
		if c, err := net.DialTimeout("tcp", addr, 200*time.Millisecond); err == nil {
			c.Close()
			return stop, nil
		}
		time.Sleep(20 * time.Millisecond)
	}
	stop()
	return nil, fmt.Errorf("server did not come up on %s: %s", addr, strings.TrimSpace(se.String()))
}

// httpDo issues one request without keep-alives and returns status and body ("" and -1 on a transport error)
func httpDo(method, url string, hdr map[string]string, body []byte) (int, []byte) {
	req, err := http.NewRequest(method, url, bytes.NewReader(body))
	if err != nil {
		return -1, nil
	}
	for k, v := range hdr {
		req.Header.Set(k, v)
	}
	cl := &http.Client{Transport: &http.Transport{DisableKeepAlives: true}, Timeout: 10 * time.Second}
	resp, err := cl.Do(req)
	if err != nil {
		return -1, nil
	}
	defer resp.Body.Close()
	var b bytes.Buffer
	b.ReadFrom(resp.Body)
	return resp.StatusCode, b.Bytes()
}

// gateServer: an in-memory HTTP chunk store (GET/HEAD/PUT on /xxxx/<id>.cacnk) that stops the k-th request at its
// entry, tells the harness, and goes on when released; requests can also be made to fail from the k-th on
type gateServer struct {
	mu       sync.Mutex
	objects  map[string][]byte
	requests int
	holdAt   int // < 0: never
	failFrom int // < 0: never; requests with index >= failFrom are answered 500
	arrived  chan struct{}
	release  chan struct{}
	puts     int
}

func newGateServer() *gateServer {
	return &gateServer{objects: map[string][]byte{}, holdAt: -1, failFrom: -1, arrived: make(chan struct{}, 1), release: make(chan struct{})}
}

func (g *gateServer) ServeHTTP(w http.ResponseWriter, r *http.Request) {
	g.mu.Lock()
	k := g.requests
	g.requests++
	hold := g.holdAt >= 0 && k == g.holdAt
	fail := g.failFrom >= 0 && k >= g.failFrom
	rel := g.release
	g.mu.Unlock()
	var body []byte
	if r.Method == "PUT" {
		var b bytes.Buffer
		b.ReadFrom(r.Body)
		body = b.Bytes()
	}
	if hold {
		select {
		case g.arrived <- struct{}{}:
		default:
		}
		select {
		case <-rel:
		case <-time.After(30 * time.Second):
		}
	}
	if fail {
		w.WriteHeader(http.StatusInternalServerError)
		return
	}
	g.mu.Lock()
	defer g.mu.Unlock()
	switch r.Method {
	case "GET", "HEAD":
		b, ok := g.objects[r.URL.Path]
		if !ok {
			w.WriteHeader(http.StatusNotFound)
			return
		}
		if r.Method == "GET" {
			w.Write(b)
		}
	case "PUT":
		g.objects[r.URL.Path] = body
		g.puts++
	default:
		w.WriteHeader(http.StatusMethodNotAllowed)
	}
}

// reset prepares the next run: request counter to zero, a fresh release channel
func (g *gateServer) reset(holdAt, failFrom int) {
	g.mu.Lock()
	g.requests, g.holdAt, g.failFrom, g.release = 0, holdAt, failFrom, make(chan struct{})
	g.mu.Unlock()
	select {
	case <-g.arrived:
	default:
	}
}

func (g *gateServer) open() {
	g.mu.Lock()
	select {
	case <-g.release:
	default:
		close(g.release)
	}
	g.mu.Unlock()
}

// runSignalled starts the command, sends sig when the held request has arrived (or after the command ended),
// releases the request a moment later and waits for the exit status (-1: no exit within a minute)
func runSignalled(bin string, g *gateServer, sig syscall.Signal, args ...string) (exit int, signalled bool, stderr string) {
	cmd := exec.Command(bin, args...)
	cmd.Env = append(os.Environ(), "HOME=/nonexistent-home")
	var se bytes.Buffer
	cmd.Stderr = &se
	if err := cmd.Start(); err != nil {
		return -1, false, err.Error()
	}
	done := make(chan error, 1)
	go func() { done <- cmd.Wait() }()
	var werr error
	finished := false
	select {
	case <-g.arrived:
		cmd.Process.Signal(sig)
		signalled = true
		time.Sleep(30 * time.Millisecond) // let the handler cancel the context before the request goes on
		g.open()
	case werr = <-done:
		finished = true
	case <-time.After(30 * time.Second):
	}
	if !finished {
		select {
		case werr = <-done:
		case <-time.After(60 * time.Second):
			cmd.Process.Kill()
			<-done
			return -1, signalled, se.String()
		}
	}
	if werr == nil {
		return 0, signalled, se.String()
	}
	if ee, ok := werr.(*exec.ExitError); ok {
		return ee.ExitCode(), signalled, se.String()
	}
	return -1, signalled, se.String()
}
