package main

// Trace validation of the concurrent readers of a copy-on-read sparse file (C10): several
// SparseFileHandle.ReadAt callers and the pre-load goroutines of preloadChunksFromState run on ONE
// sparse file under a cooperative scheduler installed through the verifSparse hooks of sparse-file.go
// (build tag verif) — exactly one goroutine runs between two hook calls — and the recorded events are
// replayed through the Lean step machine SparseConc.step (driver command sparse.accept).
//
// Blocking is derived from the trace, never from time-outs: a goroutine announces that it is about to
// take a chunk's mutex (hook "want") and is only resumed when, according to the acquire/release events
// seen so far, nobody holds that mutex; a pre-load worker about to receive from the feeder's channel
// (hook "idle") is only resumed together with the feeder that is about to send (hook "feed"), or alone
// once the feeder has closed the channel.  Time-outs only detect a goroutine that never comes back.

import (
	"fmt"
	"io"
	"math/rand"
	"os"
	"path/filepath"
	"sort"
	"strconv"
	"strings"
	"sync"
	"sync/atomic"
	"time"

	"github.com/folbricht/desync"
)

type spArrival struct {
	actor int
	ev    string
	a, b  int
}

// spScenario: everything that is fixed before the schedule starts
type spScenario struct {
	max     int
	sizes   []int
	isNull  []bool
	blob    []byte
	reads   [][][2]int // per reader goroutine: (offset, length) of its ReadAt calls, in order
	script  []string   // per chunk: outcome of the 1st, 2nd, … store request for it: O ok, E store error, D Data() fails, W the write to the cache file fails
	pre     string     // "" = no state-init file, else one 0/1 per chunk: the chunks the pre-load goroutines load
	workers int        // StateInitConcurrency
}

func (sc spScenario) starts() []int {
	st := make([]int, len(sc.sizes)+1)
	for i, z := range sc.sizes {
		st[i+1] = st[i] + z
	}
	return st
}

// spStore: the scripted store; a request's outcome depends on the chunk and on how many requests for it came before
type spStore struct {
	mu       sync.Mutex
	byID     map[desync.ChunkID]int
	data     [][]byte
	script   []string
	attempts []int
	last     byte
	calls    int
}

func (s *spStore) GetChunk(id desync.ChunkID) (*desync.Chunk, error) {
	s.mu.Lock()
	defer s.mu.Unlock()
	s.calls++
	i, ok := s.byID[id]
	if !ok {
		s.last = 'E'
		return nil, desync.ChunkMissing{ID: id}
	}
	k := s.attempts[i]
	s.attempts[i]++
	o := byte('O')
	if k < len(s.script[i]) {
		o = s.script[i][k]
	}
	s.last = o
	switch o {
	case 'E':
		return nil, storeFailure(s.calls)
	case 'D':
		return desync.NewChunkWithID(id, nil, true) // a chunk object without data: Data() fails
	}
	return desync.NewChunkWithID(id, s.data[i], false)
}
func (s *spStore) HasChunk(id desync.ChunkID) (bool, error) { _, ok := s.byID[id]; return ok, nil }
func (s *spStore) Close() error                             { return nil }
func (s *spStore) String() string                           { return "sparse-sched" }

type spSched struct {
	mu          sync.Mutex
	gids        map[int]int
	readers     int
	workers     int
	workersSeen int
	arrive      chan spArrival
	resume      []chan struct{}
	free        atomic.Bool
}

func (s *spSched) feeder() int { return s.readers + s.workers }

func (s *spSched) hook(ev string, a, b int) {
	if s.free.Load() {
		return
	}
	g := goid()
	s.mu.Lock()
	actor, known := s.gids[g]
	if !known {
		switch {
		case ev == "idle" && s.workersSeen < s.workers:
			actor = s.readers + s.workersSeen
			s.workersSeen++
		case ev == "feed" || ev == "feed.end":
			actor = s.feeder()
		default:
			s.mu.Unlock()
			return // a goroutine the scheduler does not know
		}
		s.gids[g] = actor
	}
	ch := s.resume[actor]
	s.mu.Unlock()
	s.arrive <- spArrival{actor, ev, a, b}
	if ev == "worker.end" || ev == "feed.end" {
		return // the goroutine ends here
	}
	<-ch
}

type spCall struct {
	actor    int
	preload  bool
	failed   bool // a load of this call failed
	readfile bool // loadRange returned nil
	ended    bool
	off, n   int // the request of a ReadAt call
	got      []byte
	ok       bool
	eof      bool
}

type spRun struct {
	sc       spScenario
	events   []string
	order    []int
	calls    []*spCall
	problem  string // "" | "hang" | "deadlock" | "diverged…" | "panic" | "two-holders" | "open-error"
	done     string // the loader's bitmap at the end (saved state)
	pop      string // per chunk: the cache file holds the blob's bytes
	held     int
	stats    map[string]int
	badRead  string // a successful read that differs from the blob
	nworkers int
}

// runSparseScheduled runs the scenario under a schedule: forced (a list of actors) if not nil, else drawn from rng
func runSparseScheduled(dir string, sc spScenario, rng *rand.Rand, policy int, forced []int) (res spRun) {
	res.sc = sc
	res.stats = map[string]int{}
	nch := len(sc.sizes)
	starts := sc.starts()
	R := len(sc.reads)
	W := 0
	if sc.pre != "" {
		W = sc.workers
	}
	res.nworkers = W
	nullID := desync.NewNullChunk(uint64(sc.max)).ID
	idx := desync.Index{Index: desync.FormatIndex{ChunkSizeMax: uint64(sc.max)}}
	st := &spStore{byID: map[desync.ChunkID]int{}, script: sc.script, attempts: make([]int, nch)}
	for i := 0; i < nch; i++ {
		b := sc.blob[starts[i]:starts[i+1]]
		id := desync.Digest.Sum(b)
		if sc.isNull[i] {
			id = nullID
		}
		idx.Chunks = append(idx.Chunks, desync.IndexChunk{ID: id, Start: uint64(starts[i]), Size: uint64(len(b))})
		st.data = append(st.data, b)
		if _, dup := st.byID[id]; !dup {
			st.byID[id] = i
		}
	}
	name := filepath.Join(dir, "sparse-sched")
	state := filepath.Join(dir, "sparse-sched.state")
	initf := filepath.Join(dir, "sparse-sched.init")
	away := name + ".away"
	os.Remove(name)
	os.Remove(state)
	os.Remove(away)
	opts := desync.SparseFileOptions{StateSaveFile: state}
	if sc.pre != "" {
		bm := make([]byte, (nch+7)/8)
		for i := 0; i < nch; i++ {
			if sc.pre[i] == '1' {
				bm[i/8] |= 1 << uint(i%8)
			}
		}
		os.WriteFile(initf, bm, 0644)
		opts.StateInitFile = initf
		opts.StateInitConcurrency = W
	}

	nact := R + W + 1
	s := &spSched{gids: map[int]int{}, readers: R, workers: W, arrive: make(chan spArrival, 4*nact), resume: make([]chan struct{}, nact)}
	for i := range s.resume {
		s.resume[i] = make(chan struct{}, 1)
	}
	desync.VerifSparse = s.hook
	var wg sync.WaitGroup
	release := func() {
		s.free.Store(true)
		for _, ch := range s.resume {
			select {
			case ch <- struct{}{}:
			default:
			}
		}
		fin := make(chan struct{})
		go func() { wg.Wait(); close(fin) }()
		select {
		case <-fin:
		case <-time.After(10 * time.Second):
		}
		time.Sleep(200 * time.Microsecond)
		desync.VerifSparse = nil
		if _, err := os.Stat(away); err == nil {
			os.Rename(away, name)
		}
	}
	timeout := time.After(30 * time.Second)
	wait := func() (spArrival, bool) {
		select {
		case a := <-s.arrive:
			return a, true
		case <-timeout:
			return spArrival{}, false
		}
	}

	sf, err := desync.NewSparseFile(name, idx, st, opts)
	if err != nil {
		res.problem = "open-error"
		release()
		return res
	}

	// actors: readers 0..R-1, pre-load workers R..R+W-1, the feeder R+W
	at := make([]string, nact) // the hook an actor is parked in; "" = not there (yet); "end" = its goroutine has ended
	arg := make([][2]int, nact)
	cur := make([]int, nact) // the call an actor is in (index into res.calls), -1 = none
	for i := range cur {
		cur[i] = -1
	}
	failWrite := make([]bool, nact) // the next step of this actor is a write to the cache file that the script lets fail
	holder := make([]int, nch)
	for i := range holder {
		holder[i] = -1
	}
	failedBy := make([]int, nch) // the call whose load of the chunk failed last (+1), 0 = none
	feederEnded := sc.pre == ""
	if sc.pre == "" {
		at[R+W] = "end"
	}
	readIdx := make([]int, R) // how many ReadAt calls of the reader have started
	results := make([][]*spCall, R)
	ev := func(format string, args ...interface{}) {
		res.events = append(res.events, fmt.Sprintf(format, args...))
	}

	note := func(a spArrival) {
		t := a.actor
		at[t], arg[t] = a.ev, [2]int{a.a, a.b}
		c := cur[t]
		switch a.ev {
		case "begin":
		case "finished", "worker.end", "feed.end":
			at[t] = "end"
			if a.ev == "feed.end" {
				feederEnded = true
			}
		case "start":
			k := readIdx[t]
			readIdx[t]++
			call := &spCall{actor: t}
			if k < len(sc.reads[t]) {
				call.off, call.n = sc.reads[t][k][0], sc.reads[t][k][1]
			}
			res.calls = append(res.calls, call)
			results[t] = append(results[t], call)
			cur[t] = len(res.calls) - 1
			n := a.b - a.a + 1
			if n < 0 {
				n = 0
			}
			ev("s:%d:%d:%d", cur[t], a.a, n)
		case "preload":
			res.calls = append(res.calls, &spCall{actor: t, preload: true})
			cur[t] = len(res.calls) - 1
			ev("p:%d:%d", cur[t], a.a)
			res.stats["preload-calls"]++
		case "want":
			if a.a >= 0 && a.a < nch && holder[a.a] >= 0 {
				res.stats["contended"]++ // wants a mutex another call holds
			}
		case "acquire":
			ev("a:%d:%d", c, a.a)
			if a.a >= 0 && a.a < nch {
				if holder[a.a] >= 0 && res.problem == "" {
					res.problem = fmt.Sprintf("two-holders (chunk %d: calls %d and %d)", a.a, cur[holder[a.a]], c)
				}
				holder[a.a] = t
			}
		case "check":
			ev("c:%d:%d:%d", c, a.a, a.b)
			if a.b == 1 {
				res.stats["found-done-under-mutex"]++
			} else if a.a >= 0 && a.a < nch && failedBy[a.a] != 0 {
				if failedBy[a.a] != c+1 {
					res.stats["retried-by-another-call"]++
				}
				failedBy[a.a] = 0
			}
		case "fetchOk":
			ev("fo:%d:%d", c, a.a)
			if st.last == 'W' {
				failWrite[t] = true
			}
		case "fetchFail", "dataFail", "writeFail":
			ev(map[string]string{"fetchFail": "ff", "dataFail": "df", "writeFail": "wf"}[a.ev]+":%d:%d", c, a.a)
			res.stats[a.ev]++
			if c >= 0 {
				res.calls[c].failed = true
			}
			if a.a >= 0 && a.a < nch {
				failedBy[a.a] = c + 1
			}
		case "write":
			ev("w:%d:%d", c, a.a)
		case "mark":
			ev("m:%d:%d", c, a.a)
		case "release":
			ev("rl:%d:%d", c, a.a)
			if a.a >= 0 && a.a < nch && holder[a.a] == t {
				holder[a.a] = -1
			}
		case "readfile":
			ev("rdy:%d", c)
			if c >= 0 {
				res.calls[c].readfile = true
			}
		case "return":
			if c >= 0 {
				if res.calls[c].readfile {
					ev("rd:%d", c)
				}
				res.calls[c].ended = true
			}
			cur[t] = -1
		case "idle":
			if a.b == 1 && c >= 0 { // a loadChunk call of this worker has returned
				if !res.calls[c].failed {
					ev("ld:%d", c)
				}
				res.calls[c].ended = true
				cur[t] = -1
			}
		}
	}

	// start-up: the pre-load goroutines park in their first hook, then the readers are started and park in "begin"
	for n := 0; sc.pre != "" && n < W+1; n++ {
		a, ok := wait()
		if !ok {
			res.problem = "hang (pre-load goroutines did not start)"
			release()
			return res
		}
		note(a)
	}
	for t := 0; t < R; t++ {
		t := t
		registered := make(chan struct{})
		wg.Add(1)
		go func() {
			defer wg.Done()
			s.mu.Lock()
			s.gids[goid()] = t
			s.mu.Unlock()
			close(registered)
			defer func() {
				if p := recover(); p != nil {
					if !s.free.Load() {
						s.arrive <- spArrival{t, "panic", 0, 0}
					}
				}
			}()
			s.hook("begin", 0, 0)
			h, err := sf.Open()
			if err == nil {
				defer h.Close()
				for k, rd := range sc.reads[t] {
					buf := make([]byte, rd[1])
					n, err := h.ReadAt(buf, int64(rd[0]))
					// the scheduler created the call record at this call's "start" hook
					if k < len(results[t]) {
						c := results[t][k]
						c.ok = err == nil || err == io.EOF
						c.eof = err == io.EOF
						c.got = buf[:n]
					}
				}
			}
			if !s.free.Load() {
				s.arrive <- spArrival{t, "finished", 0, 0}
			}
		}()
		<-registered
	}
	for n := 0; n < R; n++ {
		a, ok := wait()
		if !ok {
			res.problem = "hang (readers did not start)"
			release()
			return res
		}
		note(a)
	}

	prio := rng.Perm(nact)
	change := map[int]bool{}
	for k := 0; k < 3; k++ {
		change[rng.Intn(150)] = true
	}
	low := -1
	steps := make([]int, nact)
	last := -1
	fi := 0 // position in the forced schedule
	for step := 0; ; step++ {
		var en, idle []int
		for t := R; t < R+W; t++ {
			if at[t] == "idle" {
				idle = append(idle, t)
			}
		}
		for t := 0; t < nact; t++ {
			switch at[t] {
			case "", "end":
			case "want":
				if i := arg[t][0]; i < 0 || i >= nch || holder[i] < 0 {
					en = append(en, t)
				}
			case "idle":
				if feederEnded {
					en = append(en, t)
				}
			case "feed":
				if len(idle) > 0 {
					en = append(en, t)
				}
			default:
				en = append(en, t)
			}
		}
		if len(en) == 0 {
			for t := 0; t < nact; t++ {
				if at[t] != "end" && res.problem == "" {
					res.problem = fmt.Sprintf("deadlock (actor %d is stuck in %q)", t, at[t])
				}
			}
			break
		}
		pick, partner := en[0], -1
		if forced != nil {
			if fi >= len(forced) {
				res.problem = fmt.Sprintf("diverged@%d (schedule exhausted)", step)
				break
			}
			pick = forced[fi]
			fi++
			found := false
			for _, t := range en {
				found = found || t == pick
			}
			if !found {
				res.problem = fmt.Sprintf("diverged@%d (actor %d not enabled)", step, pick)
				break
			}
			if at[pick] == "feed" {
				if fi >= len(forced) {
					res.problem = fmt.Sprintf("diverged@%d (schedule exhausted)", step)
					break
				}
				partner = forced[fi]
				fi++
				if partner < 0 || partner >= nact || at[partner] != "idle" {
					res.problem = fmt.Sprintf("diverged@%d (worker %d not idle)", step, partner)
					break
				}
			}
		} else {
			switch policy {
			case 0: // uniform
				pick = en[rng.Intn(len(en))]
			case 1: // priorities with change points
				for _, t := range en {
					if prio[t] > prio[pick] {
						pick = t
					}
				}
				if change[step] {
					low--
					prio[pick] = low
				}
			case 2: // later readers first
				pick = en[len(en)-1]
				if rng.Intn(8) == 0 {
					pick = en[rng.Intn(len(en))]
				}
			case 3: // bursts
				pick = en[rng.Intn(len(en))]
				if rng.Intn(8) != 0 {
					for _, t := range en {
						if t == last {
							pick = t
						}
					}
				}
			default: // lock step: whoever is furthest behind
				pick = en[rng.Intn(len(en))]
				for _, t := range en {
					if steps[t] < steps[pick] {
						pick = t
					}
				}
			}
			if at[pick] == "feed" {
				partner = idle[rng.Intn(len(idle))]
			}
		}
		last = pick
		steps[pick]++
		res.order = append(res.order, pick)
		expect := 1
		moved := false
		if failWrite[pick] && at[pick] == "fetchOk" {
			// this step opens the cache file for writing: it is not there
			failWrite[pick] = false
			moved = os.Rename(name, away) == nil
		}
		at[pick] = ""
		s.resume[pick] <- struct{}{}
		if partner >= 0 {
			res.order = append(res.order, partner)
			at[partner] = ""
			s.resume[partner] <- struct{}{}
			expect = 2
		}
		var arrs []spArrival
		for n := 0; n < expect; n++ {
			a, ok := wait()
			if !ok {
				res.problem = "hang (a goroutine that was resumed did not reach its next hook)"
				break
			}
			if a.actor != pick && a.actor != partner {
				res.problem = fmt.Sprintf("scheduler: resumed %d, but %d arrived", pick, a.actor)
				break
			}
			arrs = append(arrs, a)
		}
		if moved {
			os.Rename(away, name)
		}
		if res.problem != "" {
			break
		}
		sort.SliceStable(arrs, func(i, j int) bool { return arrs[i].actor == pick && arrs[j].actor != pick })
		for _, a := range arrs {
			if a.ev == "panic" {
				res.problem = "panic"
				at[a.actor] = "end"
				continue
			}
			note(a)
		}
		if res.problem != "" {
			break
		}
	}
	for _, h := range holder {
		if h >= 0 {
			res.held++
		}
	}
	release()

	// what the run left behind: the bitmap (as saved), the cache file
	if err := sf.WriteState(); err == nil {
		if bm, err := os.ReadFile(state); err == nil && len(bm) == (nch+7)/8 {
			for i := 0; i < nch; i++ {
				if bm[i/8]&(1<<uint(i%8)) != 0 {
					res.done += "1"
				} else {
					res.done += "0"
				}
			}
		}
	}
	file, _ := os.ReadFile(name)
	for i := 0; i < nch; i++ {
		if len(file) >= starts[i+1] && string(file[starts[i]:starts[i+1]]) == string(sc.blob[starts[i]:starts[i+1]]) {
			res.pop += "1"
		} else {
			res.pop += "0"
		}
	}
	// the property itself: a successful read returns the blob's bytes of its range
	L := len(sc.blob)
	for ci, c := range res.calls {
		if c.preload || !c.ended || !c.ok {
			continue
		}
		want := []byte{}
		if c.off < L {
			end := c.off + c.n
			if end > L {
				end = L
			}
			want = sc.blob[c.off:end]
		}
		if string(c.got) != string(want) && res.badRead == "" {
			res.badRead = fmt.Sprintf("call %d (reader %d, offset %d, length %d) returned %s, the blob has %s", ci, c.actor, c.off, c.n, hx(c.got), hx(want))
		}
	}
	return res
}

// spAnswer is the implementation's side of sparse.accept: what the run produced
func spAnswer(r spRun) string {
	if r.problem != "" {
		return "impl-" + r.problem
	}
	L := len(r.sc.blob)
	var fin []string
	for _, c := range r.calls {
		switch {
		case !c.ended:
			fin = append(fin, "running")
		case c.preload:
			if c.failed {
				fin = append(fin, "ret:0:0")
			} else {
				fin = append(fin, "ret:1:1")
			}
		case !c.ok:
			fin = append(fin, "ret:0:0")
		default:
			want := []byte{}
			if c.off < L {
				end := c.off + c.n
				if end > L {
					end = L
				}
				want = r.sc.blob[c.off:end]
			}
			if string(c.got) == string(want) {
				fin = append(fin, "ret:1:1")
			} else {
				fin = append(fin, "ret:1:0")
			}
		}
	}
	return fmt.Sprintf("accept final=%s done=%s populated=%s held=%d", strings.Join(fin, ","), r.done, r.pop, r.held)
}

func spCaseLine(r spRun, policy int) string {
	sc := r.sc
	var nul, sizes, reads, ord []string
	for i := range sc.sizes {
		nul = append(nul, map[bool]string{false: "0", true: "1"}[sc.isNull[i]])
		sizes = append(sizes, strconv.Itoa(sc.sizes[i]))
	}
	for _, rs := range sc.reads {
		var one []string
		for _, rd := range rs {
			one = append(one, fmt.Sprintf("%d:%d", rd[0], rd[1]))
		}
		reads = append(reads, strings.Join(one, "/"))
	}
	for _, o := range r.order {
		ord = append(ord, strconv.Itoa(o))
	}
	pre := sc.pre
	if pre == "" {
		pre = "-"
	}
	return fmt.Sprintf("sparse.accept isnull=%s readers=%d events=%s max=%d sizes=%s blob=%s reads=%s script=%s pre=%s workers=%d policy=%d order=%s",
		strings.Join(nul, ","), len(r.calls), strings.Join(r.events, ","), sc.max, strings.Join(sizes, ","), hx(sc.blob), strings.Join(reads, ";"),
		strings.Join(sc.script, ","), pre, sc.workers, policy, strings.Join(ord, ","))
}

var spWorkDir string

// implSparseAccept re-runs the schedule of a recorded trace on the real code (replay)
func implSparseAccept(line string) string {
	_, a := parseCase(line)
	var sc spScenario
	sc.max, _ = strconv.Atoi(a["max"])
	for _, f := range strings.Split(a["sizes"], ",") {
		z, _ := strconv.Atoi(f)
		sc.sizes = append(sc.sizes, z)
	}
	for _, f := range strings.Split(a["isnull"], ",") {
		sc.isNull = append(sc.isNull, f == "1")
	}
	sc.blob = unhx(a["blob"])
	for _, rs := range strings.Split(a["reads"], ";") {
		var one [][2]int
		for _, rd := range strings.Split(rs, "/") {
			f := strings.Split(rd, ":")
			if len(f) != 2 {
				continue
			}
			off, _ := strconv.Atoi(f[0])
			n, _ := strconv.Atoi(f[1])
			one = append(one, [2]int{off, n})
		}
		sc.reads = append(sc.reads, one)
	}
	sc.script = strings.Split(a["script"], ",")
	if a["pre"] != "-" {
		sc.pre = a["pre"]
	}
	sc.workers, _ = strconv.Atoi(a["workers"])
	if len(sc.sizes) != len(sc.isNull) || len(sc.script) != len(sc.sizes) || sc.starts()[len(sc.sizes)] != len(sc.blob) || sc.max < 1 {
		return "bad-case"
	}
	forced := []int{}
	if a["order"] != "" {
		for _, f := range strings.Split(a["order"], ",") {
			o, _ := strconv.Atoi(f)
			forced = append(forced, o)
		}
	}
	dir := spWorkDir
	if dir == "" {
		d, err := os.MkdirTemp("", "verif-sparse-")
		if err != nil {
			return "err tmp"
		}
		defer os.RemoveAll(d)
		dir = d
	}
	r := runSparseScheduled(dir, sc, rand.New(rand.NewSource(1)), 0, forced)
	if r.problem == "" && strings.Join(r.events, ",") != a["events"] {
		return "impl-trace-differs events=" + strings.Join(r.events, ",")
	}
	return spAnswer(r)
}

func genSparseScenario(rng *rand.Rand) spScenario {
	var sc spScenario
	sc.max = 8 + rng.Intn(9)
	nch := 1 + rng.Intn(7)
	for i := 0; i < nch; i++ {
		if rng.Intn(5) == 0 {
			sc.sizes = append(sc.sizes, sc.max)
			sc.isNull = append(sc.isNull, true)
			sc.blob = append(sc.blob, make([]byte, sc.max)...)
			continue
		}
		b := randBytes(rng, 1+rng.Intn(sc.max))
		if rng.Intn(3) == 0 {
			for k := range b { // mostly zeros: stale zeros would go unnoticed otherwise
				b[k] = 0
			}
		}
		b[len(b)-1] = byte(1 + rng.Intn(255)) // never equal to what an unpopulated range holds
		sc.sizes = append(sc.sizes, len(b))
		sc.isNull = append(sc.isNull, false)
		sc.blob = append(sc.blob, b...)
	}
	L := len(sc.blob)
	starts := sc.starts()
	for i := 0; i < nch; i++ {
		s := ""
		for k := rng.Intn(4); k > 0; k-- {
			s += string("OOOOOOEEEDW"[rng.Intn(11)])
		}
		sc.script = append(sc.script, s)
	}
	hot := rng.Intn(nch) // most reads touch this chunk: contention
	R := 2 + rng.Intn(4)
	for t := 0; t < R; t++ {
		var one [][2]int
		for k := 1 + rng.Intn(3); k > 0; k-- {
			var off, n int
			switch r := rng.Intn(10); {
			case r < 5: // a range that covers (part of) the hot chunk
				off = starts[hot] - rng.Intn(sc.max)
				if off < 0 {
					off = 0
				}
				n = starts[hot] - off + 1 + rng.Intn(2*sc.max)
			case r < 8:
				off = rng.Intn(L)
				n = 1 + rng.Intn(3*sc.max)
			case r < 9: // at or beyond the end
				off = L - rng.Intn(3) + rng.Intn(3)
				if off < 0 {
					off = 0
				}
				n = 1 + rng.Intn(sc.max)
			default: // nothing to read
				off = rng.Intn(L + 1)
				n = 0
			}
			one = append(one, [2]int{off, n})
		}
		sc.reads = append(sc.reads, one)
	}
	if rng.Intn(2) == 0 {
		for i := 0; i < nch; i++ {
			sc.pre += string("01"[rng.Intn(2)])
		}
		if rng.Intn(3) == 0 { // the hot chunk is among them
			sc.pre = sc.pre[:hot] + "1" + sc.pre[hot+1:]
		}
		sc.workers = 1 + rng.Intn(3)
	}
	return sc
}

// runC10Conc: scheduled runs of concurrent readers (and the pre-load goroutines) of one sparse file, validated against the Lean machine
func runC10Conc(cfg Config, rep *Report, m *Model, rng *rand.Rand) {
	spWorkDir = cfg.Work
	runs := cfg.N(1000, 15000)
	t0 := time.Now()
	defer func() {
		rep.Notes = append(rep.Notes, fmt.Sprintf("sparse.accept: %d scheduled runs in %.1f s", runs, time.Since(t0).Seconds()))
	}()
	for it := 0; it < runs; it++ {
		sc := genSparseScenario(rng)
		policy := rng.Intn(5)
		markCase(fmt.Sprintf("sparse.sched it=%d policy=%d", it, policy))
		r := runSparseScheduled(cfg.Work, sc, rng, policy, nil)
		line := spCaseLine(r, policy)
		got := spAnswer(r)
		rep.Count(line, len(r.events) >= 12, "sparse-trace", fmt.Sprintf("sp-readers:%d", len(sc.reads)), fmt.Sprintf("sp-policy:%d", policy),
			"sp-trace-len:"+bucket(len(r.events)), fmt.Sprintf("sp-preload-workers:%d", r.nworkers))
		for k, v := range r.stats {
			rep.Histogram["sp-ev:"+k] += v
			rep.Histogram["sp-traces-with:"+k]++
		}
		if r.problem != "" {
			rep.Disagree(Disagreement{Kind: "monitor", Case: clip(line, 100000), Impl: got,
				What: "concurrent readers of a sparse file under a cooperative schedule: " + r.problem})
			continue
		}
		if r.badRead != "" {
			rep.Disagree(Disagreement{Kind: "monitor", Case: clip(line, 100000), Impl: got,
				What: "a successful read from the sparse file under a recorded schedule differs from the blob (stale data): " + r.badRead})
		}
		if m.cmd == nil {
			continue
		}
		want := m.Ask(line)
		if want == got {
			rep.Traces++
			continue
		}
		rep.Disagree(Disagreement{Kind: "correspondence", Case: clip(line, 100000), Model: clip(want, 2000), Impl: clip(got, 2000),
			What: "the event trace of the concurrent sparse-file readers is not a behaviour of the machine SparseConc.step (or final states differ)"})
	}
}
