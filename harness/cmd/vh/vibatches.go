package main

import (
	"strconv"
	"strings"
)

// batchModel is the driver the pool-trace cases ask for the model's batches of VerifyIndex
var batchModel *Model

var batchCache = map[[2]int][][2]int{}

// poolBatches: the slices `idx.Chunks[lo:hi]` the MODEL's feeder of VerifyIndex hands out for c chunks and n workers
// (`verify.batches`, computed from the regenerated loop arithmetic).  They say which jobs of a `pool.accept` case can
// succeed and how many chunks each holds; what the code really sends is compared with the same list by the driver.
// Without a driver (or with one that does not know the command) the harness' own copy of the arithmetic is used.
func poolBatches(c, n int) [][2]int {
	if batchModel == nil || batchModel.cmd == nil || n < 1 {
		return poolBatchesOwn(c, n)
	}
	if bs, ok := batchCache[[2]int{c, n}]; ok {
		return bs
	}
	ans := batchModel.Ask("verify.batches chunks=" + strconv.Itoa(c) + " n=" + strconv.Itoa(n))
	batchModel.n-- // not a case
	if !strings.HasPrefix(ans, "batches") {
		return poolBatchesOwn(c, n)
	}
	var out [][2]int
	for _, f := range strings.Split(strings.TrimSpace(strings.TrimPrefix(ans, "batches")), ",") {
		if f == "" {
			continue
		}
		p := strings.SplitN(f, ":", 2)
		if len(p) != 2 {
			return poolBatchesOwn(c, n)
		}
		lo, err1 := strconv.Atoi(p[0])
		hi, err2 := strconv.Atoi(p[1])
		if err1 != nil || err2 != nil || lo < 0 || hi < lo || hi > c {
			// a model whose batches are not slices of the chunk list cannot describe a run: the case is built
			// from the harness' arithmetic and the driver rejects what travels
			return poolBatchesOwn(c, n)
		}
		out = append(out, [2]int{lo, hi})
	}
	batchCache[[2]int{c, n}] = out
	return out
}
