package main

import (
	"bytes"
	"fmt"
	"math/rand"
	"net/http"
	"net/http/httptest"
	"net/url"
	"os"
	"path/filepath"

	"github.com/folbricht/desync"
)

// c14IndexUpstreams: "a missing object is reported as missing (never as an error or as present)" for INDEXES through
// an index server in front of every kind of upstream index store the command line can open: a local directory, an S3
// bucket (the in-process S3 service) and an SFTP server (pkg/sftp's).  A name that was never stored must come back as
// 404 on GET and HEAD and as "missing" from the client; a stored one must come back unchanged.
func c14IndexUpstreams(cfg Config, rep *Report, rng *rand.Rand) {
	setDigest("sha512")
	root := filepath.Join(cfg.Work, "c14up")
	os.RemoveAll(root)
	os.MkdirAll(root, 0755)
	defer os.RemoveAll(root)
	// (the multipart-capable front of the in-process S3 service: S3IndexStore.StoreIndex uploads a stream of unknown length)
	s3f := &fakeS3{objects: map[string][]byte{}, failGet: map[string]int{}}
	s3f.srv = httptest.NewServer(&multipartS3{f: s3f, parts: map[string]map[int][]byte{}})
	defer s3f.Close()
	wrap, werr := sftpWrapper(root)

	for it := 0; it < cfg.N(3, 20); it++ {
		upstreams := map[string]desync.IndexStore{}
		var closers []func()
		ldir := filepath.Join(root, fmt.Sprintf("local-%d", it))
		os.MkdirAll(ldir, 0755)
		if ls, err := desync.NewLocalIndexStore(ldir); err == nil {
			upstreams["local"] = ls
		}
		s3f.mu.Lock()
		s3f.objects = map[string][]byte{}
		s3f.mu.Unlock()
		if s3s, err := s3f.indexStore("bkt", "idx/", desync.StoreOptions{}); err == nil {
			upstreams["s3"] = s3s
		}
		if werr == nil {
			sdir := filepath.Join(root, fmt.Sprintf("sftp-%d", it))
			os.MkdirAll(sdir, 0755)
			os.Setenv("CASYNC_SSH_PATH", wrap)
			su, _ := url.Parse("sftp://localhost" + sdir)
			if ss, err := desync.NewSFTPIndexStore(su, desync.StoreOptions{}); err == nil {
				upstreams["sftp"] = ss
				closers = append(closers, func() { ss.Close() })
			}
		}
		// an index to store under one name
		var idx desync.Index
		idx.Index.FeatureFlags = desync.CaFormatSHA512256 | desync.CaFormatExcludeNoDump
		idx.Index.ChunkSizeMin, idx.Index.ChunkSizeAvg, idx.Index.ChunkSizeMax = 16, 64, 256
		var start uint64
		for k := rng.Intn(6); k > 0; k-- {
			sz := uint64(1 + rng.Intn(256))
			idx.Chunks = append(idx.Chunks, desync.IndexChunk{ID: desync.Digest.Sum(randBytes(rng, 8)), Start: start, Size: sz})
			start += sz
		}
		var want bytes.Buffer
		idx.WriteTo(&want)
		for uname, up := range upstreams {
			ts := httptest.NewServer(desync.NewHTTPIndexHandler(up, true, ""))
			u, _ := url.Parse(ts.URL)
			cl, err := desync.NewRemoteHTTPIndexStore(u, desync.StoreOptions{ErrorRetry: 0})
			if err != nil {
				ts.Close()
				continue
			}
			present, absent := fmt.Sprintf("here-%d.caibx", it), fmt.Sprintf("nowhere-%d.caibx", it)
			caseLine := fmt.Sprintf("idxserver.upstream kind=%s it=%d chunks=%d", uname, it, len(idx.Chunks))
			rep.Count(caseLine, true, "index-upstream:"+uname)
			if err := cl.StoreIndex(present, idx); err != nil {
				rep.Disagree(Disagreement{Kind: "monitor", Case: caseLine, What: fmt.Sprintf("storing an index through the index server into a %s index store failed: %v", uname, err)})
			} else if got, err := cl.GetIndex(present); err != nil {
				rep.Disagree(Disagreement{Kind: "monitor", Case: caseLine, What: fmt.Sprintf("an index stored through the index server (%s upstream) cannot be read back: %v", uname, err)})
			} else {
				var b bytes.Buffer
				got.WriteTo(&b)
				if !bytes.Equal(b.Bytes(), want.Bytes()) {
					rep.Disagree(Disagreement{Kind: "monitor", Case: caseLine, What: fmt.Sprintf("an index read back through the index server (%s upstream) differs from the one stored", uname)})
				}
			}
			// the missing one: GET and HEAD must say 404, the client must say "missing"
			for _, method := range []string{"GET", "HEAD"} {
				req, _ := http.NewRequest(method, ts.URL+"/"+absent, nil)
				resp, err := http.DefaultClient.Do(req)
				if err != nil {
					continue
				}
				resp.Body.Close()
				if resp.StatusCode != http.StatusNotFound {
					rep.Disagree(Disagreement{Kind: "monitor", Case: caseLine + " method=" + method, Sig: "index-server.missing-index." + uname + "-upstream",
						What: fmt.Sprintf("%s of an index that does not exist, index server in front of a %s index store: status %d, not 404 (a missing object reported as a failure)", method, uname, resp.StatusCode)})
				}
			}
			_, gerr := cl.GetIndex(absent)
			if _, ok := gerr.(desync.NoSuchObject); gerr == nil || (!ok && !os.IsNotExist(gerr)) {
				rep.Disagree(Disagreement{Kind: "monitor", Case: caseLine + " client", Sig: "index-server.missing-index." + uname + "-upstream",
					What: fmt.Sprintf("GetIndex of an index that does not exist through the index server (%s upstream) is not reported as missing: %v", uname, gerr)})
			}
			ts.Close()
		}
		for _, f := range closers {
			f()
		}
	}
}
