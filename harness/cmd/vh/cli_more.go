package main

// More runs of the real command-line binary: cat (C09), tar/untar on disk (C05), chunk-server / index-server /
// pull end to end (C14).

import (
	"bytes"
	"context"
	"fmt"
	"math/rand"
	"net/url"
	"os"
	"path/filepath"
	"strings"
	"time"

	"github.com/folbricht/desync"
)

// c09CLI: `desync cat` with --offset/--length from a local store, one chunk of which may be damaged: exit status 0
// must come with exactly the requested bytes; a span that touches the damaged chunk must fail
func c09CLI(cfg Config, rep *Report, rng *rand.Rand) {
	bin := desyncBin()
	if bin == "" {
		rep.Notes = append(rep.Notes, "desync binary not built: command-line cat runs skipped")
		return
	}
	dir := filepath.Join(cfg.Work, "cli09")
	defer os.RemoveAll(dir)
	for it := 0; it < cfg.N(4, 40); it++ {
		os.RemoveAll(dir)
		storeDir := filepath.Join(dir, "store")
		os.MkdirAll(storeDir, 0755)
		blob := randBytes(rng, 30000+rng.Intn(30000))
		if it%2 == 1 { // a run of null chunks in the middle
			blob = append(append(blob[:10000:10000], make([]byte, 40000)...), blob[10000:]...)
		}
		st, _ := desync.NewLocalStore(storeDir, desync.StoreOptions{})
		ch, _ := desync.NewChunker(bytes.NewReader(blob), 1024, 2048, 8192)
		idx, err := desync.ChunkStream(context.Background(), ch, st, 2)
		if err != nil || len(idx.Chunks) < 4 {
			continue
		}
		idxFile := filepath.Join(dir, "blob.caibx")
		f, _ := os.Create(idxFile)
		idx.WriteTo(f)
		f.Close()
		damaged := -1
		if it%3 != 0 {
			damaged = rng.Intn(len(idx.Chunks))
			id := idx.Chunks[damaged].ID
			p := filepath.Join(storeDir, id.String()[:4], id.String()+".cacnk")
			switch it % 3 {
			case 1:
				// whether the object is damaged is decided by what it decodes to: a flipped bit in a zstd frame header can
				// leave the chunk intact (false alarm of the seed sweep, seed 6)
				orig, _ := os.ReadFile(p)
				stillGood := true
				for try := 0; try < 20 && stillGood && len(orig) > 0; try++ {
					b := append([]byte{}, orig...)
					b[rng.Intn(len(b))] ^= 0x40
					os.WriteFile(p, b, 0644)
					_, gerr := st.GetChunk(id)
					stillGood = gerr == nil
				}
				if stillGood {
					os.WriteFile(p, orig, 0644)
					damaged = -1
				}
			default:
				os.Remove(p)
			}
			// the same ID may occur at several positions (null chunks): every one of them is damaged then
		}
		touches := func(off, ln int) bool {
			if damaged < 0 {
				return false
			}
			bad := idx.Chunks[damaged].ID
			// the reader produces the all-zero chunk of maximum size itself and never asks the store for it: damaging
			// that object cannot (and need not) make cat fail (false alarm of the seed sweep, seed 6)
			if bad == desync.NewNullChunk(8192).ID {
				return false
			}
			for _, c := range idx.Chunks {
				if c.ID == bad && int(c.Start) < off+ln && off < int(c.Start+c.Size) {
					return true
				}
			}
			return false
		}
		total := len(blob)
		spans := [][2]int{{0, 0}, {0, total}, {total - 1, 1}}
		for k := 0; k < 8; k++ {
			off := rng.Intn(total)
			spans = append(spans, [2]int{off, 1 + rng.Intn(total-off)})
		}
		for _, sp := range spans {
			off, ln := sp[0], sp[1]
			args := []string{"cat", "-s", storeDir}
			want := blob
			if ln > 0 {
				args = append(args, "-o", fmt.Sprint(off), "-l", fmt.Sprint(ln))
				want = blob[off : off+ln]
			} else {
				ln = total
			}
			out := filepath.Join(dir, "out")
			os.Remove(out)
			r := runCLI(bin, nil, nil, 60*time.Second, append(args, idxFile, out)...)
			got, _ := os.ReadFile(out)
			caseLine := fmt.Sprintf("cli.cat it=%d offset=%d length=%d blob=%d damaged-chunk=%d", it, off, ln, total, damaged)
			rep.Count(caseLine, true, "cli.cat", fmt.Sprintf("cli-exit0:%v", r.exit == 0))
			if r.exit == 0 && !bytes.Equal(got, want) {
				rep.Disagree(Disagreement{Kind: "monitor", Case: caseLine, What: fmt.Sprintf("desync cat exited with status 0 but wrote %d bytes that are not the requested range (%d bytes)", len(got), len(want))})
			}
			if r.exit != 0 && !touches(off, ln) {
				rep.Disagree(Disagreement{Kind: "monitor", Case: caseLine, What: "desync cat failed on a range whose chunks are all present and intact: " + clip(r.stderr, 200)})
			}
			if r.exit == 0 && touches(off, ln) {
				rep.Disagree(Disagreement{Kind: "monitor", Case: caseLine, What: "desync cat exited with status 0 for a range that includes a damaged or missing chunk"})
			}
		}
	}
}

// c05CLI: `desync tar` / `desync untar` on disk, as an archive file and through an index and a store, under both
// digests: the unpacked tree equals the source tree (lstat, readlink, xattrs, contents, mtimes incl. links and directories)
func c05CLI(cfg Config, rep *Report, rng *rand.Rand) {
	bin := desyncBin()
	if bin == "" {
		rep.Notes = append(rep.Notes, "desync binary not built: command-line tar/untar runs skipped")
		return
	}
	dir := filepath.Join(cfg.Work, "cli05")
	defer os.RemoveAll(dir)
	for it := 0; it < cfg.N(4, 40); it++ {
		os.RemoveAll(dir)
		src, dst, storeDir := filepath.Join(dir, "src"), filepath.Join(dir, "dst"), filepath.Join(dir, "store")
		os.MkdirAll(storeDir, 0755)
		buildDiskTree(rng, src)
		want := snapshotTree(src, true)
		digest := []string{"sha512-256", "sha256"}[it%2]
		viaIndex := it%4 >= 2
		caseLine := fmt.Sprintf("cli.tar-untar it=%d digest=%s via-index=%v entries=%d", it, digest, viaIndex, len(want))
		rep.Count(caseLine, len(want) >= 3, "cli.tar-untar", "cli-digest:"+digest)
		var r1, r2 cliResult
		os.MkdirAll(dst, 0755)
		if viaIndex {
			idxFile := filepath.Join(dir, "tree.caidx")
			r1 = runCLI(bin, nil, nil, 120*time.Second, "tar", "--digest", digest, "-i", "-s", storeDir, "-m", "1:2:8", idxFile, src)
			if r1.exit == 0 {
				r2 = runCLI(bin, nil, nil, 120*time.Second, "untar", "--digest", digest, "-i", "-s", storeDir, idxFile, dst)
			}
		} else {
			arFile := filepath.Join(dir, "tree.catar")
			r1 = runCLI(bin, nil, nil, 120*time.Second, "tar", "--digest", digest, arFile, src)
			if r1.exit == 0 {
				r2 = runCLI(bin, nil, nil, 120*time.Second, "untar", "--digest", digest, arFile, dst)
			}
		}
		switch {
		case r1.exit != 0:
			rep.Disagree(Disagreement{Kind: "monitor", Case: caseLine, What: "desync tar failed on a generated tree: " + clip(r1.stderr, 200)})
		case r2.exit != 0:
			rep.Disagree(Disagreement{Kind: "monitor", Case: caseLine, What: "desync untar failed on what desync tar wrote: " + clip(r2.stderr, 200)})
		default:
			if got := snapshotTree(dst, true); strings.Join(got, "\n") != strings.Join(want, "\n") {
				rep.Disagree(Disagreement{Kind: "monitor", Case: caseLine, Impl: clip(diffLines(want, got), 1500), What: "desync tar ; desync untar does not reproduce the tree on disk"})
			}
		}
	}
}

// c14CLI: the real `desync chunk-server` and `desync pull` in front of local stores of both formats (the format of the
// served store comes from the configuration file), with library clients of both formats: present chunks arrive
// unchanged, missing chunks are reported as missing, and the session stays usable afterwards
func c14CLI(cfg Config, rep *Report, rng *rand.Rand) {
	bin := desyncBin()
	if bin == "" {
		rep.Notes = append(rep.Notes, "desync binary not built: command-line transport runs skipped")
		return
	}
	dir := filepath.Join(cfg.Work, "cli14")
	defer os.RemoveAll(dir)
	for it := 0; it < cfg.N(8, 48); it++ {
		os.RemoveAll(dir)
		upstreamUnc := it%2 == 1
		serverU := it%4 >= 2
		clientUnc := it%8 >= 4
		storeDir := filepath.Join(dir, "store")
		os.MkdirAll(storeDir, 0755)
		up, _ := desync.NewLocalStore(storeDir, desync.StoreOptions{Uncompressed: upstreamUnc})
		var chunks []*desync.Chunk
		for k := 0; k < 6; k++ {
			var data []byte
			switch k % 3 {
			case 0:
				data = randBytes(rng, 1+rng.Intn(5000))
			case 1:
				data = make([]byte, 1+rng.Intn(5000))
			default:
				data = bytes.Repeat([]byte("transport "), 1+rng.Intn(400))
			}
			c := desync.NewChunk(data)
			chunks = append(chunks, c)
			if k < 4 {
				up.StoreChunk(c)
			}
		}
		conf := filepath.Join(dir, "config.json")
		os.WriteFile(conf, []byte(fmt.Sprintf(`{"store-options": {%q: {"uncompressed": %v}}}`, storeDir, upstreamUnc)), 0644)
		check := func(kind string, s desync.Store) {
			for round := 0; round < 2; round++ { // twice: the session must survive the missing ones
				for k, c := range chunks {
					caseLine := fmt.Sprintf("cli.transport kind=%s upstream-uncompressed=%v server-u=%v client-uncompressed=%v chunk=%d present=%v round=%d", kind, upstreamUnc, serverU, clientUnc, k, k < 4, round)
					got, err := s.GetChunk(c.ID())
					rep.Count(caseLine, true, "cli.transport:"+kind)
					want, _ := c.Data()
					switch {
					case k < 4 && err != nil:
						rep.Disagree(Disagreement{Kind: "monitor", Case: caseLine, What: "a chunk the served store holds did not arrive: " + err.Error()})
					case k < 4:
						if b, derr := got.Data(); derr != nil || !bytes.Equal(b, want) {
							rep.Disagree(Disagreement{Kind: "monitor", Case: caseLine, What: fmt.Sprintf("a chunk arrived changed (%v)", derr)})
						}
					case err == nil:
						rep.Disagree(Disagreement{Kind: "monitor", Case: caseLine, What: "a chunk the served store does not hold was delivered"})
					default:
						if _, ok := err.(desync.ChunkMissing); !ok {
							rep.Disagree(Disagreement{Kind: "monitor", Case: caseLine, What: "a missing chunk was reported as a failure, not as missing: " + err.Error()})
						}
					}
					if has, herr := s.HasChunk(c.ID()); herr != nil || has != (k < 4) {
						rep.Disagree(Disagreement{Kind: "monitor", Case: caseLine + " op=HasChunk", What: fmt.Sprintf("HasChunk answered (%v, %v) for a chunk that is present=%v", has, herr, k < 4)})
					}
				}
			}
		}
		// HTTP
		port := freePort()
		addr := fmt.Sprintf("127.0.0.1:%d", port)
		args := []string{"--config", conf, "chunk-server", "-s", storeDir, "-l", addr, "--skip-verify-read=false"}
		if serverU {
			args = append(args, "-u")
		}
		stop, err := startServer(bin, nil, addr, args...)
		if err != nil {
			rep.Notes = append(rep.Notes, "could not start chunk-server: "+err.Error())
		} else {
			u, _ := url.Parse("http://" + addr + "/")
			hs, err := desync.NewRemoteHTTPStore(u, desync.StoreOptions{Uncompressed: clientUnc, ErrorRetry: 0})
			if err == nil {
				if clientUnc == serverU { // a client talks to a server of its own format
					check("chunk-server", hs)
				}
				hs.Close()
			}
			stop()
		}
		// casync protocol over a pipe to the real `desync pull`
		if it%2 == 0 || it%8 == 1 {
			wrapper := filepath.Join(dir, "fake-ssh")
			os.WriteFile(wrapper, []byte("#!/bin/sh\nshift\nexec sh -c \"$1\"\n"), 0755)
			os.Setenv("CASYNC_SSH_PATH", wrapper)
			os.Setenv("CASYNC_REMOTE_PATH", bin+" --config "+conf)
			u, _ := url.Parse("ssh://localhost" + storeDir)
			rs, err := desync.NewRemoteSSHStore(u, desync.StoreOptions{N: 1})
			if err != nil {
				rep.Notes = append(rep.Notes, "could not start desync pull: "+err.Error())
			} else {
				check("pull", rs)
				rs.Close()
			}
			os.Unsetenv("CASYNC_SSH_PATH")
			os.Unsetenv("CASYNC_REMOTE_PATH")
		}
	}
}

// c11CLI: the store chains the command line builds (cmd/desync/store.go), driven through `desync cat`: several -s
// stores form a router; `a|b` a failover group; -c a cache that fills itself, serves without upstream afterwards, and
// with --cache-repair (the default) replaces a damaged cached chunk from upstream
func c11CLI(cfg Config, rep *Report, rng *rand.Rand) {
	bin := desyncBin()
	if bin == "" {
		rep.Notes = append(rep.Notes, "desync binary not built: command-line store chain runs skipped")
		return
	}
	dir := filepath.Join(cfg.Work, "cli11")
	defer os.RemoveAll(dir)
	mon := func(caseLine, what string) {
		rep.Disagree(Disagreement{Kind: "monitor", Case: caseLine, What: what})
	}
	for it := 0; it < cfg.N(3, 24); it++ {
		os.RemoveAll(dir)
		a, b, empty, cache := filepath.Join(dir, "a"), filepath.Join(dir, "b"), filepath.Join(dir, "empty"), filepath.Join(dir, "cache")
		for _, d := range []string{a, b, empty, cache} {
			os.MkdirAll(d, 0755)
		}
		blob := randBytes(rng, 30000+rng.Intn(20000))
		full := newMemStore()
		ch, _ := desync.NewChunker(bytes.NewReader(blob), 1024, 2048, 8192)
		idx, err := desync.ChunkStream(context.Background(), ch, full, 2)
		if err != nil || len(idx.Chunks) < 4 {
			continue
		}
		sa, _ := desync.NewLocalStore(a, desync.StoreOptions{})
		sb, _ := desync.NewLocalStore(b, desync.StoreOptions{})
		k := 0
		for id, data := range full.chunks { // a and b each hold about half, together everything
			c, _ := desync.NewChunkWithID(id, data, false)
			if k%2 == 0 {
				sa.StoreChunk(c)
			} else {
				sb.StoreChunk(c)
			}
			k++
		}
		idxFile, out := filepath.Join(dir, "blob.caibx"), filepath.Join(dir, "out")
		f, _ := os.Create(idxFile)
		idx.WriteTo(f)
		f.Close()
		run := func(tag string, wantOK bool, args ...string) {
			os.Remove(out)
			r := runCLI(bin, nil, nil, 60*time.Second, append(append([]string{"cat", "--error-retry", "0"}, args...), idxFile, out)...)
			got, _ := os.ReadFile(out)
			caseLine := fmt.Sprintf("cli.chain it=%d chain=%s", it, tag)
			rep.Count(caseLine, true, "cli.chain:"+tag, fmt.Sprintf("cli-exit0:%v", r.exit == 0))
			switch {
			case r.exit == 0 && !bytes.Equal(got, blob):
				mon(caseLine, "desync cat exited with status 0 but the output is not the blob")
			case wantOK && r.exit != 0:
				mon(caseLine, "the chain holds every chunk but desync cat failed: "+clip(r.stderr, 300))
			case !wantOK && r.exit == 0:
				mon(caseLine, "desync cat succeeded although a chunk is in none of the stores of the chain")
			}
		}
		dead := fmt.Sprintf("http://127.0.0.1:%d/", freePort())
		run("router-a-b", true, "-s", a, "-s", b)
		run("router-b-a", true, "-s", b, "-s", a)
		run("single-a", false, "-s", a)
		run("failover-dead-then-router", true, "-s", dead+"|"+a, "-s", b)
		run("failover-a-then-dead", true, "-s", a+"|"+dead, "-s", b+"|"+dead)
		run("dead-only", false, "-s", dead)
		// cache: fills on a miss, then serves alone
		run("cache-fill", true, "-s", a, "-s", b, "-c", cache)
		sc, _ := desync.NewLocalStore(cache, desync.StoreOptions{})
		for _, c := range idx.Chunks {
			if _, err := sc.GetChunk(c.ID); err != nil {
				mon(fmt.Sprintf("cli.chain it=%d chain=cache-fill", it), "after a run with -c the cache does not hold a chunk of the index: "+err.Error())
				break
			}
		}
		run("cache-alone", true, "-s", empty, "-c", cache)
		// damage a cached chunk in place (same length) and run again with upstream: repaired; then alone again
		id := idx.Chunks[rng.Intn(len(idx.Chunks))].ID
		p := filepath.Join(cache, id.String()[:4], id.String()+".cacnk")
		if cb, err := os.ReadFile(p); err == nil && len(cb) > 0 {
			cb[rng.Intn(len(cb))] ^= 0x10
			os.WriteFile(p, cb, 0644)
			run("cache-damaged-alone", false, "-s", empty, "-c", cache)
			run("cache-damaged-repair", true, "-s", a, "-s", b, "-c", cache)
			if _, err := sc.GetChunk(id); err != nil {
				mon(fmt.Sprintf("cli.chain it=%d chain=cache-damaged-repair", it), "the damaged cached chunk was not replaced from upstream: "+err.Error())
			}
			run("cache-alone-after-repair", true, "-s", empty, "-c", cache)
		}
	}
}
