package main

import (
	"bytes"
	"context"
	"encoding/binary"
	"fmt"
	"io"
	"math/rand"
	"os"
	"path"
	"sort"
	"strconv"
	"strings"
	"testing/iotest"
	"time"

	"github.com/folbricht/desync"
)

// ---------------------------------------------------------------------------------------
// implementation runners for the catar family (C05 C13 C18 C19)

func elemStr(e interface{}) string {
	u := func(v uint64) string { return fmt.Sprint(v) }
	switch t := e.(type) {
	case desync.FormatEntry:
		return fmt.Sprintf("entry:%d:%d:%d:%d:%d:%d:%d", t.Size, t.FeatureFlags, uint32(t.Mode), t.Flags, uint64(t.UID), uint64(t.GID), uint64(t.MTime.UnixNano()))
	case desync.FormatUser:
		return "user:" + u(t.Size) + ":" + hx([]byte(t.Name))
	case desync.FormatGroup:
		return "group:" + u(t.Size) + ":" + hx([]byte(t.Name))
	case desync.FormatXAttr:
		return "xattr:" + u(t.Size) + ":" + hx([]byte(t.NameAndValue))
	case desync.FormatSELinux:
		return "selinux:" + u(t.Size) + ":" + hx([]byte(t.Label))
	case desync.FormatFilename:
		return "filename:" + u(t.Size) + ":" + hx([]byte(t.Name))
	case desync.FormatSymlink:
		return "symlink:" + u(t.Size) + ":" + hx([]byte(t.Target))
	case desync.FormatDevice:
		return fmt.Sprintf("device:%d:%d:%d", t.Size, t.Major, t.Minor)
	case desync.FormatPayload:
		return "payload:" + u(t.Size)
	case desync.FormatFCaps:
		return "fcaps:" + u(t.Size) + ":" + hx(t.Data)
	case desync.FormatACLUser:
		return fmt.Sprintf("acluser:%d:%d:%d:%s", t.Size, t.UID, t.Permissions, hx([]byte(t.Name)))
	case desync.FormatACLGroup:
		return fmt.Sprintf("aclgroup:%d:%d:%d:%s", t.Size, t.GID, t.Permissions, hx([]byte(t.Name)))
	case desync.FormatACLGroupObj:
		return fmt.Sprintf("aclgroupobj:%d:%d", t.Size, t.Permissions)
	case desync.FormatACLDefault:
		return fmt.Sprintf("acldefault:%d:%d:%d:%d:%d", t.Size, t.UserObjPermissions, t.GroupObjPermissions, t.OtherPermissions, t.MaskPermissions)
	case desync.FormatGoodbye:
		var it []string
		for _, i := range t.Items {
			it = append(it, fmt.Sprintf("%d/%d/%d", i.Offset, i.Size, i.Hash))
		}
		return "goodbye:" + u(t.Size) + ":" + strings.Join(it, ",")
	case desync.FormatIndex:
		return fmt.Sprintf("index:%d:%d:%d:%d:%d", t.Size, t.FeatureFlags, t.ChunkSizeMin, t.ChunkSizeAvg, t.ChunkSizeMax)
	case desync.FormatTable:
		var it []string
		for _, i := range t.Items {
			it = append(it, fmt.Sprintf("%d/%s", i.Offset, hx(i.Chunk[:])))
		}
		return "table:" + u(t.Size) + ":" + strings.Join(it, ",")
	}
	return fmt.Sprintf("unknown:%T", e)
}

// stripAlloc removes the model-only " alloc=N" suffix and returns it
func stripAlloc(s string) (string, int) {
	i := strings.LastIndex(s, " alloc=")
	if i < 0 {
		return s, 0
	}
	var a int
	fmt.Sscan(s[i+7:], &a)
	return s[:i], a
}

func implFmtNext(line string) string {
	_, a := parseCase(line)
	b := unhx(a["bytes"])
	return guard(func() string {
		r := bytes.NewReader(b)
		d := desync.NewFormatDecoder(r)
		e, err := d.Next()
		if err != nil {
			return "err " + fmtErrKind(err)
		}
		if e == nil {
			return "ok end"
		}
		return fmt.Sprintf("ok %s rest=%d", elemStr(e), r.Len())
	})
}

// plainReader hides every method of the reader it wraps except Read (no Seek, no WriteTo, no ReadAt)
type plainReader struct{ r io.Reader }

func (p plainReader) Read(b []byte) (int, error) { return p.r.Read(b) }

// fmt.walk bytes= takes=k1,k2,… src=bytes|file|plain|onebyte : FormatDecoder.Next until the end of the stream; of the i-th
// payload the caller reads k_i bytes (nothing once the list is used up) and goes on.  The source is a bytes.Reader or an
// os.File (both can seek), or a reader that can only read.  Whatever the source can do, a stream that ends before a
// payload does is malformed.
func implFmtWalk(line string) string {
	_, a := parseCase(line)
	b := unhx(a["bytes"])
	var takes []int
	if a["takes"] != "" {
		for _, t := range strings.Split(a["takes"], ",") {
			k, _ := strconv.Atoi(t)
			takes = append(takes, k)
		}
	}
	return guard(func() string {
		var r io.Reader
		switch a["src"] {
		case "file":
			f, err := os.CreateTemp("", "vh-walk")
			if err != nil {
				return "harness-error " + err.Error()
			}
			defer os.Remove(f.Name())
			defer f.Close()
			f.Write(b)
			f.Seek(0, io.SeekStart)
			r = f
		case "plain":
			r = plainReader{bytes.NewReader(b)}
		case "onebyte":
			r = iotest.OneByteReader(bytes.NewReader(b))
		default:
			r = bytes.NewReader(b)
		}
		d := desync.NewFormatDecoder(r)
		var out []string
		for i := 0; i <= len(b)+1; i++ {
			e, err := d.Next()
			if err != nil {
				return "err " + fmtErrKind(err)
			}
			if e == nil {
				return "ok " + strings.Join(out, ";")
			}
			if p, ok := e.(desync.FormatPayload); ok {
				var got []byte
				if len(takes) > 0 {
					k := takes[0]
					takes = takes[1:]
					buf := make([]byte, k)
					n, err := io.ReadFull(p.Data, buf)
					got = buf[:n]
					// fewer bytes than asked for is fine when the payload is that short; a stream that ended is not
					if err == io.ErrUnexpectedEOF && uint64(n) == p.Size-16 {
						err = nil
					}
					if err == io.EOF && p.Size == 16 {
						err = nil
					}
					if err != nil {
						return "err " + fmtErrKind(err)
					}
				}
				out = append(out, elemStr(e)+"="+hx(got))
				continue
			}
			out = append(out, elemStr(e))
		}
		return "err no-end"
	})
}

func implProtoRead(line string) string {
	_, a := parseCase(line)
	b := unhx(a["bytes"])
	return guard(func() string {
		r := bytes.NewReader(b)
		p := desync.NewProtocol(r, io.Discard)
		m, err := p.ReadMessage()
		if err != nil {
			return "err " + fmtErrKind(err)
		}
		return fmt.Sprintf("ok %d:%s rest=%d", m.Type, hx(m.Body), r.Len())
	})
}

// recording FilesystemWriter
type recFS struct {
	nodes []string
}

func xattrStr(x desync.Xattrs) string {
	type kvp struct{ k, v string }
	var l []kvp
	for k, v := range x {
		l = append(l, kvp{hx([]byte(k)), hx([]byte(v))})
	}
	sort.Slice(l, func(i, j int) bool { return l[i].k < l[j].k })
	var s []string
	for _, p := range l {
		s = append(s, p.k+"="+p.v)
	}
	return strings.Join(s, "|")
}

func metaStr(uid, gid int, mode os.FileMode, mt time.Time, x desync.Xattrs) string {
	return fmt.Sprintf("%d:%d:%d:%d:%s", uint64(uid), uint64(gid), uint32(mode), uint64(mt.UnixNano()), xattrStr(x))
}

func (r *recFS) CreateDir(n desync.NodeDirectory) error {
	r.nodes = append(r.nodes, "D:"+hx([]byte(n.Name))+":"+metaStr(n.UID, n.GID, n.Mode, n.MTime, n.Xattrs))
	return nil
}
func (r *recFS) CreateFile(n desync.NodeFile) error {
	data, err := io.ReadAll(n.Data)
	if err != nil {
		return err
	}
	r.nodes = append(r.nodes, fmt.Sprintf("F:%s:%s:%d:%s", hx([]byte(n.Name)), metaStr(n.UID, n.GID, n.Mode, n.MTime, n.Xattrs), n.Size, hx(data)))
	return nil
}
func (r *recFS) CreateSymlink(n desync.NodeSymlink) error {
	r.nodes = append(r.nodes, "L:"+hx([]byte(n.Name))+":"+metaStr(n.UID, n.GID, n.Mode, n.MTime, n.Xattrs)+":"+hx([]byte(n.Target)))
	return nil
}
func (r *recFS) CreateDevice(n desync.NodeDevice) error {
	r.nodes = append(r.nodes, fmt.Sprintf("V:%s:%s:%d:%d", hx([]byte(n.Name)), metaStr(n.UID, n.GID, n.Mode, n.MTime, n.Xattrs), n.Major, n.Minor))
	return nil
}

func untarNodes(b []byte) (string, []string) {
	fs := &recFS{}
	res := guard(func() string {
		if err := desync.UnTar(context.Background(), bytes.NewReader(b), fs); err != nil {
			return "err " + fmtErrKind(err)
		}
		return "ok " + strings.Join(fs.nodes, ";")
	})
	return res, fs.nodes
}

func implUntar(line string) string {
	_, a := parseCase(line)
	res, _ := untarNodes(unhx(a["bytes"]))
	return res
}

// a FileRec as the harness generates it
type fileRec struct {
	name   string // f.Name
	path   string // f.Path
	kind   string // dir reg symlink device other
	perm   uint32 // permission + setuid/setgid/sticky in os.FileMode form
	uid    int
	gid    int
	mtime  int64
	data   []byte
	sizeD  int // what the reader reports as the file's size is len(data)+sizeD (a file that changed after its size was taken; sysfs/procfs)
	target string
	major  uint64
	minor  uint64
	xattrs map[string]string
}

func (f fileRec) size() int {
	if n := len(f.data) + f.sizeD; n > 0 {
		return n
	}
	return 0
}

func (f fileRec) fileMode() os.FileMode {
	m := os.FileMode(f.perm)
	switch f.kind {
	case "dir":
		m |= os.ModeDir
	case "symlink":
		m |= os.ModeSymlink
	case "device":
		m |= os.ModeDevice
		if f.minor%2 == 1 {
			m |= os.ModeCharDevice
		}
	case "other":
		m |= os.ModeNamedPipe
	}
	return m
}

func (f fileRec) String() string {
	var xs []string
	keys := make([]string, 0, len(f.xattrs))
	for k := range f.xattrs {
		keys = append(keys, k)
	}
	sort.Strings(keys)
	for _, k := range keys {
		xs = append(xs, hx([]byte(k))+"="+hx([]byte(f.xattrs[k])))
	}
	return fmt.Sprintf("%s,%s,%s,%s,%d,%d,%d,%d,%d,%s,%s,%d,%d,%s",
		hx([]byte(path.Base(f.name))), hx([]byte(f.path)), hx([]byte(path.Dir(f.path))), f.kind,
		uint64(desync.FilemodeToStatMode(f.fileMode())), uint64(f.uid), uint64(f.gid), uint64(f.mtime),
		f.size(), hx(f.data), hx([]byte(f.target)), f.major, f.minor, strings.Join(xs, "|"))
}

type recReader struct {
	recs []fileRec
	i    int
}

func (r *recReader) Next() (*desync.File, error) {
	if r.i >= len(r.recs) {
		return nil, io.EOF
	}
	f := r.recs[r.i]
	r.i++
	out := &desync.File{Name: f.name, Path: f.path, Mode: f.fileMode(), Size: uint64(f.size()), LinkTarget: f.target,
		ModTime: time.Unix(0, f.mtime), Uid: f.uid, Gid: f.gid, DevMajor: f.major, DevMinor: f.minor, Xattrs: f.xattrs}
	if f.kind == "reg" {
		out.Data = io.NopCloser(bytes.NewReader(f.data))
	}
	return out, nil
}

func tarRecs(recs []fileRec) string {
	return guard(func() string {
		var buf bytes.Buffer
		if err := desync.Tar(context.Background(), &buf, &recReader{recs: recs}); err != nil {
			return "err"
		}
		return hx(buf.Bytes())
	})
}

var lastRecs []fileRec // the records of the case being run (case lines carry them too; kept for the monitor)

func parseRecs(s string) []fileRec {
	var out []fileRec
	for _, r := range strings.Split(s, ";") {
		f := strings.Split(r, ",")
		if len(f) != 14 {
			continue
		}
		var rec fileRec
		base := string(unhx(f[0]))
		rec.path = string(unhx(f[1]))
		rec.name = base
		rec.kind = f[3]
		var mode, uid, gid, mt uint64
		fmt.Sscan(f[4], &mode)
		fmt.Sscan(f[5], &uid)
		fmt.Sscan(f[6], &gid)
		fmt.Sscan(f[7], &mt)
		fm := desync.StatModeToFilemode(uint32(mode))
		rec.perm = uint32(fm & (os.ModePerm | os.ModeSetuid | os.ModeSetgid | os.ModeSticky))
		rec.uid, rec.gid, rec.mtime = int(uid), int(gid), int64(mt)
		rec.data = unhx(f[9])
		var sz int
		fmt.Sscan(f[8], &sz)
		rec.sizeD = sz - len(rec.data)
		rec.target = string(unhx(f[10]))
		fmt.Sscan(f[11], &rec.major)
		fmt.Sscan(f[12], &rec.minor)
		if f[13] != "" {
			rec.xattrs = map[string]string{}
			for _, kvs := range strings.Split(f[13], "|") {
				p := strings.Split(kvs, "=")
				rec.xattrs[string(unhx(p[0]))] = string(unhx(p[1]))
			}
		}
		out = append(out, rec)
	}
	return out
}

func implTar(line string) string {
	_, a := parseCase(line)
	return tarRecs(parseRecs(a["recs"]))
}

func implMode(line string) string {
	cmd, a := parseCase(line)
	var m, ma, mi, r uint64
	fmt.Sscan(a["m"], &m)
	fmt.Sscan(a["ma"], &ma)
	fmt.Sscan(a["mi"], &mi)
	fmt.Sscan(a["r"], &r)
	switch cmd {
	case "mode.s2f":
		return fmt.Sprint(uint32(desync.StatModeToFilemode(uint32(m))))
	case "mode.f2s":
		return fmt.Sprint(desync.FilemodeToStatMode(os.FileMode(uint32(m))))
	case "mode.mkdev":
		return fmt.Sprint(desync.VerifMkdev(ma, mi))
	default:
		return fmt.Sprintf("%d:%d", (r>>8)&0xfff, (r%256)|((r&0xfff00000)>>12))
	}
}

// ---------------------------------------------------------------------------------------
// tree generator: records in the order a sorted walk produces them

type genTree struct {
	rng     *rand.Rand
	recs    []fileRec
	budget  int
	hostile bool // names with arbitrary bytes
}

func (g *genTree) name(i int) string {
	switch g.rng.Intn(6) {
	case 0:
		return fmt.Sprintf("f%04d", i)
	case 1:
		n := 1 + g.rng.Intn(40)
		b := make([]byte, n)
		for k := range b {
			c := byte(1 + g.rng.Intn(255))
			if c == '/' {
				c = '_'
			}
			b[k] = c
		}
		if string(b) == "." || string(b) == ".." {
			return "x"
		}
		return string(b)
	case 2:
		return strings.Repeat("n", 1+g.rng.Intn(255))
	default:
		return fmt.Sprintf("%c%d", 'a'+rune(g.rng.Intn(26)), i)
	}
}

func (g *genTree) meta(f *fileRec) {
	f.uid = g.rng.Intn(70000)
	f.gid = g.rng.Intn(70000)
	f.perm = uint32(g.rng.Intn(0o1000))
	switch g.rng.Intn(8) {
	case 0:
		f.perm |= uint32(os.ModeSetuid)
	case 1:
		f.perm |= uint32(os.ModeSetgid)
	case 2:
		f.perm |= uint32(os.ModeSticky)
	}
	f.mtime = g.rng.Int63n(2_000_000_000_000_000_000)
	if g.rng.Intn(5) == 0 {
		f.xattrs = map[string]string{}
		for i := 0; i < 1+g.rng.Intn(3); i++ {
			f.xattrs[fmt.Sprintf("user.k%d", g.rng.Intn(5))] = string(randBytes(g.rng, g.rng.Intn(12)))
		}
	}
}

func (g *genTree) dir(p string, depth int, fanout int) {
	names := map[string]bool{}
	var list []string
	for i := 0; i < fanout; i++ {
		n := g.name(i)
		if !names[n] {
			names[n] = true
			list = append(list, n)
		}
	}
	sort.Strings(list)
	for _, n := range list {
		if g.budget <= 0 {
			return
		}
		g.budget--
		f := fileRec{name: n, path: path.Join(p, n)}
		g.meta(&f)
		switch k := g.rng.Intn(12); {
		case k < 2 && depth < 5:
			f.kind = "dir"
			g.recs = append(g.recs, f)
			g.dir(f.path, depth+1, g.rng.Intn(6))
			continue
		case k < 8:
			f.kind = "reg"
			f.data = randBytes(g.rng, g.rng.Intn(1<<uint(g.rng.Intn(9))))
		case k < 10:
			f.kind = "symlink"
			f.target = string(randBytes(g.rng, 1+g.rng.Intn(30)))
			f.target = strings.ReplaceAll(f.target, "\x00", "x")
		case k < 11:
			f.kind = "device"
			f.major = uint64(g.rng.Intn(4096))
			f.minor = uint64(g.rng.Intn(1 << 20))
		default:
			f.kind = "other"
		}
		g.recs = append(g.recs, f)
	}
}

func genRecords(rng *rand.Rand, rootFanout int, budget int) []fileRec {
	g := &genTree{rng: rng, budget: budget}
	root := fileRec{name: ".", path: ".", kind: "dir"}
	g.meta(&root)
	g.recs = append(g.recs, root)
	g.dir(".", 0, rootFanout)
	return g.recs
}

func recsCase(recs []fileRec) string {
	s := make([]string, len(recs))
	for i, r := range recs {
		s[i] = r.String()
	}
	return "arch.tar recs=" + strings.Join(s, ";")
}

// ---------------------------------------------------------------------------------------
// independent well-formedness checker for catar bytes (written from casync's format
// description; shares nothing with desync's decoder)

type wfItem struct {
	start, end int
	hash       uint64
}

type wfParser struct {
	b   []byte
	pos int
}

func (p *wfParser) hdr() (size, typ uint64, ok bool) {
	if p.pos+16 > len(p.b) {
		return 0, 0, false
	}
	return binary.LittleEndian.Uint64(p.b[p.pos:]), binary.LittleEndian.Uint64(p.b[p.pos+8:]), true
}

// node parses ENTRY [XATTR…] (PAYLOAD | SYMLINK | DEVICE | children… GOODBYE) starting at p.pos
func (p *wfParser) node(depth int) error {
	start := p.pos
	size, typ, ok := p.hdr()
	if !ok || typ != desync.CaFormatEntry || size != 64 {
		return fmt.Errorf("offset %d: expected a 64-byte entry", p.pos)
	}
	mode := binary.LittleEndian.Uint64(p.b[p.pos+24:])
	p.pos += 64
	prevKey := ""
	first := true
	for {
		size, typ, ok = p.hdr()
		if !ok {
			return fmt.Errorf("offset %d: truncated after entry", p.pos)
		}
		switch typ { // optional metadata elements casync may emit between entry and content
		case desync.CaFormatUser, desync.CaFormatGroup, desync.CaFormatSELinux, desync.CaFormatFCaps,
			desync.CaFormatACLUser, desync.CaFormatACLGroup, desync.CaFormatACLGroupObj, desync.CaFormatACLDefault,
			desync.CaFormatACLDefaultUser, desync.CaFormatACLDefaultGroup:
			if size < 17 || p.pos+int(size) > len(p.b) {
				return fmt.Errorf("offset %d: bad metadata element %x size %d", p.pos, typ, size)
			}
			p.pos += int(size)
			continue
		}
		if typ != desync.CaFormatXAttr {
			break
		}
		if size < 18 || p.pos+int(size) > len(p.b) || p.b[p.pos+int(size)-1] != 0 {
			return fmt.Errorf("offset %d: bad xattr element", p.pos)
		}
		body := p.b[p.pos+16 : p.pos+int(size)-1]
		i := bytes.IndexByte(body, 0)
		if i < 0 {
			return fmt.Errorf("offset %d: xattr without separator", p.pos)
		}
		key := string(body[:i])
		if !first && key <= prevKey {
			return fmt.Errorf("offset %d: xattrs not sorted", p.pos)
		}
		prevKey, first = key, false
		p.pos += int(size)
	}
	switch typ {
	case desync.CaFormatPayload:
		if size < 16 || p.pos+int(size) > len(p.b) {
			return fmt.Errorf("offset %d: payload size %d exceeds the archive", p.pos, size)
		}
		if mode&0xf000 != 0x8000 {
			return fmt.Errorf("offset %d: payload for a non-regular mode %o", p.pos, mode)
		}
		p.pos += int(size)
	case desync.CaFormatSymlink:
		if size < 17 || p.pos+int(size) > len(p.b) || p.b[p.pos+int(size)-1] != 0 {
			return fmt.Errorf("offset %d: bad symlink element", p.pos)
		}
		p.pos += int(size)
	case desync.CaFormatDevice:
		if size != 32 || p.pos+32 > len(p.b) {
			return fmt.Errorf("offset %d: bad device element", p.pos)
		}
		p.pos += 32
	case desync.CaFormatFilename, desync.CaFormatGoodbye:
		if mode&0xf000 != 0x4000 {
			return fmt.Errorf("offset %d: children/goodbye after a non-directory entry (mode %o)", p.pos, mode)
		}
		var items []wfItem
		for typ == desync.CaFormatFilename {
			cs := p.pos
			if size < 18 || p.pos+int(size) > len(p.b) || p.b[p.pos+int(size)-1] != 0 {
				return fmt.Errorf("offset %d: bad filename element", p.pos)
			}
			name := p.b[p.pos+16 : p.pos+int(size)-1]
			if bytes.IndexByte(name, '/') >= 0 || bytes.IndexByte(name, 0) >= 0 || string(name) == "." || string(name) == ".." {
				return fmt.Errorf("offset %d: invalid name %q", p.pos, name)
			}
			p.pos += int(size)
			if err := p.node(depth + 1); err != nil {
				return err
			}
			items = append(items, wfItem{cs, p.pos, desync.SipHash(name)})
			size, typ, ok = p.hdr()
			if !ok {
				return fmt.Errorf("offset %d: directory not closed by a goodbye", p.pos)
			}
		}
		if typ != desync.CaFormatGoodbye {
			return fmt.Errorf("offset %d: expected goodbye, got %x", p.pos, typ)
		}
		gstart := p.pos
		n := len(items)
		if size != uint64(16+24*(n+1)) || p.pos+int(size) > len(p.b) {
			return fmt.Errorf("offset %d: goodbye size %d for %d children", p.pos, size, n)
		}
		type gi struct{ off, sz, hash uint64 }
		tbl := make([]gi, n+1)
		for i := range tbl {
			o := p.pos + 16 + 24*i
			tbl[i] = gi{binary.LittleEndian.Uint64(p.b[o:]), binary.LittleEndian.Uint64(p.b[o+8:]), binary.LittleEndian.Uint64(p.b[o+16:])}
		}
		tail := tbl[n]
		if tail.hash != desync.CaFormatGoodbyeTailMarker || tail.off != uint64(gstart-start) || tail.sz != size {
			return fmt.Errorf("offset %d: bad goodbye tail (offset %d size %d)", p.pos, tail.off, tail.sz)
		}
		// every table item must describe exactly one child, and the heap layout must be a BST:
		// in-order traversal sorted by (hash, offset descending start = ascending back-offset)
		byStart := map[int]wfItem{}
		for _, it := range items {
			byStart[it.start] = it
		}
		seen := map[int]bool{}
		for i := 0; i < n; i++ {
			cs := gstart - int(tbl[i].off)
			it, ok := byStart[cs]
			if !ok || seen[cs] || uint64(it.end-it.start) != tbl[i].sz || it.hash != tbl[i].hash {
				return fmt.Errorf("offset %d: goodbye item %d does not describe a child (off %d size %d)", gstart, i, tbl[i].off, tbl[i].sz)
			}
			seen[cs] = true
		}
		var inorder func(i int, out *[]gi)
		inorder = func(i int, out *[]gi) {
			if i >= n {
				return
			}
			inorder(2*i+1, out)
			*out = append(*out, tbl[i])
			inorder(2*i+2, out)
		}
		var seq []gi
		inorder(0, &seq)
		for i := 1; i < len(seq); i++ {
			a, b := seq[i-1], seq[i]
			if a.hash > b.hash || (a.hash == b.hash && a.off >= b.off) {
				return fmt.Errorf("offset %d: goodbye table is not a binary search tree at in-order position %d", gstart, i)
			}
		}
		p.pos += int(size)
	default:
		return fmt.Errorf("offset %d: unexpected element %x after entry", p.pos, typ)
	}
	return nil
}

func catarWellFormed(b []byte) error {
	p := &wfParser{b: b}
	if err := p.node(0); err != nil {
		return err
	}
	if p.pos != len(b) {
		return fmt.Errorf("trailing bytes after the root node: %d of %d consumed", p.pos, len(b))
	}
	return nil
}
