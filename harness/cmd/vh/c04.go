package main

import (
	"bytes"
	"encoding/binary"
	"fmt"
	"io"
	"math/rand"
	"net/http"
	"net/http/httptest"
	"net/url"
	"os"
	"path"
	"path/filepath"
	"strings"
	"sync/atomic"

	"github.com/folbricht/desync"
	"github.com/pkg/errors"
)

// canonical error kind for the index/format decoders
func fmtErrKind(err error) string {
	c := errors.Cause(err)
	switch c {
	case io.EOF:
		return "eof"
	case io.ErrUnexpectedEOF:
		return "ueof"
	}
	if _, ok := c.(desync.InvalidFormat); ok {
		return "format"
	}
	s := err.Error()
	switch {
	case strings.Contains(s, "unsupported header type"), strings.Contains(s, "unsupported element"):
		return "unsupported"
	case strings.Contains(s, "not an index file"):
		return "notindex"
	case strings.Contains(s, "index file uses"):
		return "digest"
	case strings.Contains(s, "index table not found"):
		return "notable"
	case strings.Contains(s, "larger than maximum"):
		return "chunksize"
	case strings.Contains(s, "not increasing"), strings.Contains(s, "decreas"):
		return "offsets"
	case strings.Contains(s, "message length too short"):
		return "short"
	}
	return "other"
}

func setDigest(alg string) {
	if alg == "sha256" {
		desync.Digest = desync.SHA256{}
	} else {
		desync.Digest = desync.SHA512256{}
	}
}

func indexStr(i desync.Index) string {
	var sb strings.Builder
	fmt.Fprintf(&sb, "flags=%d min=%d avg=%d max=%d n=%d table=", i.Index.FeatureFlags, i.Index.ChunkSizeMin,
		i.Index.ChunkSizeAvg, i.Index.ChunkSizeMax, len(i.Chunks))
	for k, c := range i.Chunks {
		if k > 0 {
			sb.WriteByte(',')
		}
		fmt.Fprintf(&sb, "%d:%d:%s", c.Start, c.Size, hx(c.ID[:]))
	}
	return sb.String()
}

func implIdxDecode(line string) string {
	_, a := parseCase(line)
	setDigest(a["alg"])
	defer setDigest("sha512")
	b := unhx(a["bytes"])
	return guard(func() string {
		idx, err := desync.IndexFromReader(bytes.NewReader(b))
		if err != nil {
			return "err " + fmtErrKind(err)
		}
		return "ok " + indexStr(idx)
	})
}

func parseChunksArg(s string) []desync.IndexChunk {
	var cs []desync.IndexChunk
	if s == "" {
		return cs
	}
	var start uint64
	for _, p := range strings.Split(s, ",") {
		f := strings.Split(p, ":")
		var sz uint64
		fmt.Sscan(f[0], &sz)
		var id desync.ChunkID
		copy(id[:], unhx(f[1]))
		cs = append(cs, desync.IndexChunk{ID: id, Start: start, Size: sz})
		start += sz
	}
	return cs
}

func implIdxEncode(line string) string {
	_, a := parseCase(line)
	var idx desync.Index
	fmt.Sscan(a["flags"], &idx.Index.FeatureFlags)
	fmt.Sscan(a["min"], &idx.Index.ChunkSizeMin)
	fmt.Sscan(a["avg"], &idx.Index.ChunkSizeAvg)
	fmt.Sscan(a["max"], &idx.Index.ChunkSizeMax)
	idx.Chunks = parseChunksArg(a["chunks"])
	return guard(func() string {
		var buf bytes.Buffer
		if _, err := idx.WriteTo(&buf); err != nil {
			return "err other"
		}
		return hx(buf.Bytes())
	})
}

var interestingU64 = []uint64{0, 1, 2, 15, 16, 17, 24, 31, 32, 33, 39, 40, 41, 47, 48, 49, 63, 64, 65, 100, 255, 256,
	4096, 65535, 65536, 1 << 31, 1<<31 + 1, 1<<32 - 1, 1 << 32, 1 << 62, 1<<63 - 1, 1 << 63, 1<<64 - 17, 1<<64 - 16, 1<<64 - 2, 1<<64 - 1}

func genIndex(rng *rand.Rand) desync.Index {
	var idx desync.Index
	switch rng.Intn(4) {
	case 0:
		idx.Index.FeatureFlags = desync.CaFormatSHA512256 | desync.CaFormatExcludeNoDump
	case 1:
		idx.Index.FeatureFlags = desync.CaFormatExcludeNoDump
	case 2:
		idx.Index.FeatureFlags = rng.Uint64()
	default:
		idx.Index.FeatureFlags = desync.TarFeatureFlags | uint64(rng.Intn(2))*desync.CaFormatSHA512256
	}
	max := uint64(1 + rng.Intn(1<<uint(rng.Intn(20))))
	if rng.Intn(20) == 0 {
		max = interestingU64[rng.Intn(len(interestingU64))]
	}
	idx.Index.ChunkSizeMax = max
	idx.Index.ChunkSizeAvg = uint64(rng.Int63n(int64(max%(1<<62)) + 1))
	idx.Index.ChunkSizeMin = uint64(rng.Int63n(int64(idx.Index.ChunkSizeAvg) + 1))
	n := 0
	switch rng.Intn(6) {
	case 0:
		n = 0
	case 1:
		n = 1
	case 2:
		n = 2 + rng.Intn(4)
	case 3, 4:
		n = rng.Intn(40)
	default:
		n = rng.Intn(300)
	}
	var start uint64
	for i := 0; i < n; i++ {
		var sz uint64
		switch rng.Intn(10) {
		case 0:
			sz = max
		case 1:
			sz = 1
		case 2:
			if i > 0 && rng.Intn(4) == 0 {
				sz = 0 // zero-length chunk in the middle (offsets stay non-decreasing)
			} else {
				sz = 1
			}
		default:
			if max > 0 {
				sz = 1 + uint64(rng.Int63n(int64(max%(1<<62))+1))%max
			}
		}
		if sz > max {
			sz = max
		}
		var id desync.ChunkID
		rng.Read(id[:])
		idx.Chunks = append(idx.Chunks, desync.IndexChunk{ID: id, Start: start, Size: sz})
		start += sz
	}
	return idx
}

func encodeCase(idx desync.Index) string {
	var sb strings.Builder
	fmt.Fprintf(&sb, "idx.encode flags=%d min=%d avg=%d max=%d chunks=", idx.Index.FeatureFlags, idx.Index.ChunkSizeMin,
		idx.Index.ChunkSizeAvg, idx.Index.ChunkSizeMax)
	for k, c := range idx.Chunks {
		if k > 0 {
			sb.WriteByte(',')
		}
		fmt.Fprintf(&sb, "%d:%s", c.Size, hx(c.ID[:]))
	}
	return sb.String()
}

func algForFlags(flags uint64) string {
	if flags&desync.CaFormatSHA512256 != 0 {
		return "sha512"
	}
	return "sha256"
}

// shrink an idx.decode case: drop 40-byte table items, truncate the tail, zero bytes
func shrinkIdxDecode(line string) []string {
	cmd, a := parseCase(line)
	b := unhx(a["bytes"])
	var out []string
	mk := func(nb []byte) {
		na := kv{"alg": a["alg"], "bytes": hx(nb)}
		out = append(out, buildCase(cmd, na, "alg", "bytes"))
	}
	if len(b) > 64+40 {
		for off := 64; off+40 <= len(b)-40 && len(out) < 8; off += 40 * (1 + (len(b)-104)/320) {
			nb := append(append([]byte{}, b[:off]...), b[off+40:]...)
			mk(nb)
		}
	}
	if len(b) > 0 {
		mk(b[:len(b)-1])
		mk(b[:len(b)/2])
	}
	return out
}

func runC04(cfg Config) {
	rep := NewReport("C04", cfg.Tier, cfg.Seed,
		"generated indexes (0..300 chunks, any flags, sizes 0..max) -> WriteTo bytes vs model; IndexFromReader on valid files, "+
			"strict prefixes, single-field corruptions, hostile first elements, random bytes, testdata files vs model verdict and table; "+
			"non-trivial = distinct case line whose implementation result is neither a bare eof error nor an empty table")
	m, err := StartModel(cfg.Driver)
	if err != nil {
		fatal(err)
	}
	defer m.Close()
	rng := rand.New(rand.NewSource(cfg.Seed))

	monitor := func(what, caseLine, impl string) {
		rep.Disagree(Disagreement{Kind: "monitor", Case: clip(caseLine, 100000), Impl: impl, What: what})
	}
	decodeCase := func(alg string, b []byte) string {
		return "idx.decode alg=" + alg + " bytes=" + hx(b)
	}
	doDecode := func(alg string, b []byte, tag string) string {
		line := decodeCase(alg, b)
		got := implIdxDecode(line)
		rep.Compare(m, line, implIdxDecode, shrinkIdxDecode)
		nontrivial := !(got == "err eof") && !strings.HasSuffix(got, "table=")
		rep.Count(line, nontrivial, "decode:"+tag, "decode-result:"+strings.SplitN(got, " ", 3)[0]+":"+errKindOf(got))
		// monitor: whatever is accepted must describe a consistent table
		if strings.HasPrefix(got, "ok ") {
			setDigest(alg)
			idx, _ := desync.IndexFromReader(bytes.NewReader(b))
			setDigest("sha512")
			var end uint64
			for k, c := range idx.Chunks {
				if c.Start != end {
					monitor(fmt.Sprintf("accepted table: chunk %d start %d != previous end %d", k, c.Start, end), line, got)
				}
				if c.Size > idx.Index.ChunkSizeMax {
					monitor(fmt.Sprintf("accepted table: chunk %d larger than max", k), line, got)
				}
				if c.Start+c.Size < c.Start {
					monitor(fmt.Sprintf("accepted table: chunk %d end wraps around (offsets decrease)", k), line, got)
				}
				end = c.Start + c.Size
			}
		}
		return got
	}

	// corpus: testdata index files (casync-produced ones must re-encode byte-identically)
	files, _ := filepath.Glob(filepath.Join(cfg.Repo, "testdata", "*.caibx"))
	more, _ := filepath.Glob(filepath.Join(cfg.Repo, "testdata", "*.index"))
	files = append(files, more...)
	for _, f := range files {
		b, err := os.ReadFile(f)
		if err != nil {
			continue
		}
		got := doDecode("sha512", b, "testdata")
		if strings.HasPrefix(got, "ok ") {
			idx, _ := desync.IndexFromReader(bytes.NewReader(b))
			var buf bytes.Buffer
			idx.WriteTo(&buf)
			if !bytes.Equal(buf.Bytes(), b) {
				monitor("testdata index does not re-encode byte-identically: "+filepath.Base(f), decodeCase("sha512", b), "")
			}
			line := encodeCase(idx)
			rep.Compare(m, line, implIdxEncode, nil)
			rep.Count(line, true, "encode:testdata")
		} else {
			monitor("testdata index rejected: "+filepath.Base(f), decodeCase("sha512", b), got)
		}
	}

	n := cfg.N(1500, 40000)
	for it := 0; it < n; it++ {
		idx := genIndex(rng)
		line := encodeCase(idx)
		enc := implIdxEncode(line)
		rep.Compare(m, line, implIdxEncode, nil)
		rep.Count(line, len(idx.Chunks) > 0, "encode", fmt.Sprintf("encode-chunks:%s", bucket(len(idx.Chunks))))
		if strings.HasPrefix(enc, "err") || enc == "panic" {
			monitor("WriteTo failed on a well-formed index", line, enc)
			continue
		}
		b := unhx(enc)
		alg := algForFlags(idx.Index.FeatureFlags)

		// round trip (monitor, independent of the model). Only indexes whose cumulative
		// offsets are non-zero are representable: an offset of 0 is the table terminator.
		got := doDecode(alg, b, "valid")
		representable := len(idx.Chunks) == 0 || idx.Chunks[0].Size > 0
		for _, c := range idx.Chunks {
			if c.Start+c.Size < c.Start { // cumulative offset would wrap around 2^64
				representable = false
			}
		}
		if representable && got != "ok "+indexStr(idx) {
			monitor("decode(encode(i)) != i", line, got)
		}
		// wrong digest must be rejected
		other := "sha256"
		if alg == "sha256" {
			other = "sha512"
		}
		if g := doDecode(other, b, "wrong-digest"); g != "err digest" {
			monitor("digest flag mismatch not rejected", decodeCase(other, b), g)
		}

		// strict prefixes: all of them for small files, sampled otherwise
		if len(b) <= 200 && it%4 == 0 {
			for k := 0; k < len(b); k++ {
				if g := doDecode(alg, b[:k], "prefix"); strings.HasPrefix(g, "ok ") {
					monitor(fmt.Sprintf("strict prefix of length %d accepted", k), decodeCase(alg, b[:k]), g)
				}
			}
		} else {
			for j := 0; j < 6; j++ {
				k := rng.Intn(len(b))
				switch j {
				case 0:
					k = len(b) - 1
				case 1:
					k = len(b) - 8
				case 2:
					k = len(b) - 40
				case 3:
					k = 48 + rng.Intn(17)
				}
				if g := doDecode(alg, b[:k], "prefix"); strings.HasPrefix(g, "ok ") {
					monitor(fmt.Sprintf("strict prefix of length %d accepted", k), decodeCase(alg, b[:k]), g)
				}
			}
		}

		// single-field corruptions (8-byte aligned fields)
		for j := 0; j < 6; j++ {
			nb := append([]byte{}, b...)
			nf := len(nb) / 8
			f := rng.Intn(nf)
			if j == 0 && len(idx.Chunks) > 1 { // an offset field of the table
				f = 8 + 5*rng.Intn(len(idx.Chunks))
			}
			var v uint64
			old := binary.LittleEndian.Uint64(nb[f*8:])
			switch rng.Intn(5) {
			case 0:
				v = interestingU64[rng.Intn(len(interestingU64))]
			case 1:
				v = old + 1
			case 2:
				v = old - 1
			case 3:
				v = old ^ (1 << uint(rng.Intn(64)))
			default:
				v = rng.Uint64()
			}
			binary.LittleEndian.PutUint64(nb[f*8:], v)
			doDecode(alg, nb, "corrupt-field")
		}
	}

	// hostile: decreasing offsets under a huge max, all (type,size) boundary pairs as first
	// element, random bytes
	types := []uint64{desync.CaFormatEntry, desync.CaFormatUser, desync.CaFormatGroup, desync.CaFormatXAttr,
		desync.CaFormatACLUser, desync.CaFormatACLGroup, desync.CaFormatACLGroupObj, desync.CaFormatACLDefault,
		desync.CaFormatFCaps, desync.CaFormatSELinux, desync.CaFormatSymlink, desync.CaFormatDevice,
		desync.CaFormatPayload, desync.CaFormatFilename, desync.CaFormatGoodbye, desync.CaFormatIndex,
		desync.CaFormatTable, 0, 12345}
	for _, t := range types {
		for _, sz := range interestingU64 {
			for _, tail := range []int{0, 1, 8, 40, 200} {
				b := make([]byte, 16+tail)
				binary.LittleEndian.PutUint64(b[0:], sz)
				binary.LittleEndian.PutUint64(b[8:], t)
				rng.Read(b[16:])
				doDecode("sha512", b, "hostile-first")
			}
		}
	}
	for it := 0; it < cfg.N(300, 5000); it++ {
		hdrMax := interestingU64[rng.Intn(len(interestingU64))]
		k := 1 + rng.Intn(4)
		var buf bytes.Buffer
		w := func(vs ...uint64) {
			for _, v := range vs {
				binary.Write(&buf, binary.LittleEndian, v)
			}
		}
		w(48, desync.CaFormatIndex, desync.CaFormatSHA512256, 1, 2, hdrMax)
		w(^uint64(0), desync.CaFormatTable)
		for i := 0; i < k; i++ {
			off := interestingU64[rng.Intn(len(interestingU64))]
			if rng.Intn(2) == 0 {
				off = uint64(rng.Intn(300))
			}
			w(off)
			buf.Write(randBytes(rng, 32))
		}
		w(0, 0, 48, uint64(16+40*k+40), desync.CaFormatTableTailMarker)
		doDecode("sha512", buf.Bytes(), "hostile-offsets")
	}
	for it := 0; it < cfg.N(500, 10000); it++ {
		doDecode("sha512", randBytes(rng, rng.Intn(200)), "random")
	}

	// an output that fails part-way: WriteTo (and what is built on it) must not report success for an index that was
	// cut off — whenever it returns nil, what reached the writer is the complete encoding.  The failure can fall into
	// the final flush of the buffered writer (any index below 4 KiB) or into an earlier one.
	for it := 0; it < cfg.N(200, 4000); it++ {
		idx := genIndex(rng)
		if it%3 == 0 { // larger than one buffer
			for k := 0; k < 150+rng.Intn(300); k++ {
				var id desync.ChunkID
				rng.Read(id[:])
				last := uint64(0)
				if n := len(idx.Chunks); n > 0 {
					last = idx.Chunks[n-1].Start + idx.Chunks[n-1].Size
				}
				idx.Chunks = append(idx.Chunks, desync.IndexChunk{ID: id, Start: last, Size: 1 + uint64(rng.Intn(100))})
			}
		}
		var full bytes.Buffer
		if _, err := idx.WriteTo(&full); err != nil {
			continue
		}
		total := full.Len()
		room := rng.Intn(total + 1)
		switch rng.Intn(4) {
		case 0:
			room = total - 1
		case 1:
			room = 0
		}
		lw := &limitWriter{room: room}
		_, err := idx.WriteTo(lw)
		caseLine := fmt.Sprintf("idx.write-fault chunks=%d bytes=%d writer-accepts=%d", len(idx.Chunks), total, room)
		rep.Count(caseLine, len(idx.Chunks) > 0, "write-fault", fmt.Sprintf("write-fault-result:%v", err == nil))
		if err == nil && !bytes.Equal(lw.buf.Bytes(), full.Bytes()) {
			monitor(fmt.Sprintf("Index.WriteTo reported success although the writer took only %d of %d bytes", lw.buf.Len(), total), caseLine, "")
		}
	}
	if _, err := os.Stat("/dev/full"); err == nil {
		// a local index store whose file cannot take the bytes (the name is a link to /dev/full)
		dir := filepath.Join(cfg.Work, "idxstore-full")
		os.MkdirAll(dir, 0755)
		if ls, err := desync.NewLocalIndexStore(dir); err == nil {
			os.Symlink("/dev/full", filepath.Join(dir, "full.caibx"))
			for it := 0; it < 5; it++ {
				idx := genIndex(rng)
				if len(idx.Chunks) == 0 {
					continue
				}
				caseLine := fmt.Sprintf("idx.store-fault chunks=%d target=/dev/full", len(idx.Chunks))
				rep.Count(caseLine, true, "store-fault")
				if err := ls.StoreIndex("full.caibx", idx); err == nil {
					monitor("LocalIndexStore.StoreIndex reported success although the device is full", caseLine, "")
				}
			}
		}
	}

	// index stores: the bytes a store keeps under a name are the WriteTo encoding of the last index
	// stored there, also when the name held a longer index before (local file, HTTP index server
	// in front of a local index store)
	{
		dir := filepath.Join(cfg.Work, "idxstore")
		os.MkdirAll(dir, 0755)
		ls, err := desync.NewLocalIndexStore(dir)
		if err == nil {
			ts := httptest.NewServer(desync.NewHTTPIndexHandler(ls, true, ""))
			u, _ := url.Parse(ts.URL + "/")
			hs, _ := desync.NewRemoteHTTPIndexStore(u, desync.StoreOptions{})
			// a plain HTTP object server that answers 503 to every other PUT after having read its body: the first
			// attempt of each StoreIndex fails within the retry budget and the retry must carry the whole index again
			var puts int64
			flaky := httptest.NewServer(http.HandlerFunc(func(w http.ResponseWriter, r *http.Request) {
				name := filepath.Join(dir, path.Base(r.URL.Path))
				switch r.Method {
				case "PUT":
					b, _ := io.ReadAll(r.Body)
					if atomic.AddInt64(&puts, 1)%2 == 1 {
						w.WriteHeader(http.StatusServiceUnavailable)
						return
					}
					os.WriteFile(name, b, 0644)
				case "GET":
					b, err := os.ReadFile(name)
					if err != nil {
						w.WriteHeader(http.StatusNotFound)
						return
					}
					w.Write(b)
				default:
					w.WriteHeader(http.StatusMethodNotAllowed)
				}
			}))
			defer flaky.Close()
			fu, _ := url.Parse(flaky.URL + "/")
			fs, _ := desync.NewRemoteHTTPIndexStore(fu, desync.StoreOptions{ErrorRetry: 3, ErrorRetryBaseInterval: 0})
			stores := map[string]desync.IndexWriteStore{"local": ls, "http": hs, "http-flaky": fs}
			for it := 0; it < cfg.N(60, 1200); it++ {
				for kind, st := range stores {
					name := fmt.Sprintf("%s-%d.caibx", kind, it%7) // names are reused: later indexes overwrite earlier ones
					idx := genIndex(rng)
					representable := len(idx.Chunks) == 0 || idx.Chunks[0].Size > 0
					for _, c := range idx.Chunks {
						if c.Start+c.Size < c.Start || c.Size > idx.Index.ChunkSizeMax {
							representable = false
						}
					}
					if !representable || algForFlags(idx.Index.FeatureFlags) != "sha512" {
						continue
					}
					line := encodeCase(idx)
					if err := st.StoreIndex(name, idx); err != nil {
						monitor("StoreIndex failed on a well-formed index: "+err.Error(), line+" store="+kind, "")
						continue
					}
					onDisk, _ := os.ReadFile(filepath.Join(dir, name))
					got := hx(onDisk)
					rep.Count(line+" store="+kind, len(idx.Chunks) > 0, "indexstore:"+kind)
					if m.cmd != nil {
						if want := m.Ask(line); want != got {
							rep.Disagree(Disagreement{Kind: "correspondence", Case: clip(line+" store="+kind+" name="+name, 100000), Model: clip(want, 400), Impl: clip(got, 400),
								What: fmt.Sprintf("the file the %s index store keeps (%d bytes) is not the encoding of the index stored last", kind, len(onDisk))})
						}
					}
					back, err := st.GetIndex(name)
					if err != nil || indexStr(back) != indexStr(idx) {
						monitor("GetIndex does not return the index stored last ("+kind+")", line, fmt.Sprint(err))
					}
				}
			}
			ts.Close()
		}
	}
	runC04Stores(cfg, rep, m, rng)
	runGCSIndex(cfg, rep, m, rng)
	c04CLI(cfg, rep, rng) // the real binary under --digest: every index-reading/-writing sub-command and the index server (c04cli.go)
	rep.Write(cfg.Out)
}

func errKindOf(res string) string {
	f := strings.Fields(res)
	if len(f) >= 2 && f[0] == "err" {
		return f[1]
	}
	return ""
}

func bucket(n int) string {
	switch {
	case n == 0:
		return "0"
	case n == 1:
		return "1"
	case n < 10:
		return "2-9"
	case n < 100:
		return "10-99"
	default:
		return "100+"
	}
}
