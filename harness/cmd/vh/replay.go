package main

import (
	"encoding/json"
	"fmt"
	"os"
	"strings"
)

// impls maps a case command to the function running it on the real code.
var impls = map[string]func(string) string{
	"asm.run":         implAsmReplay,
	"asm.clone":       implAsmClone,
	"asmconc.accept":  implAsmConcAccept,
	"idx.decode":      implIdxDecode,
	"idx.encode":      implIdxEncode,
	"istore.ops":      implIstoreOps,
	"chunk.all":       implChunkAll,
	"chunk.buffered":  implChunkBuffered,
	"chunk.disc":      implChunkDisc,
	"chunk.ops":       implChunkOps,
	"par.accept":      implParAccept,
	"wdq.accept":      implWdqAccept,
	"fmt.next":        implFmtNext,
	"hash":            implHash,
	"ip.ops":          implIpOps,
	"http.retry":      implHTTPRetry,
	"chain.ops":       implChainOps,
	"prune.run":       implPruneRun,
	"prune.classify":  implPruneClassify,
	"store.name":      implStoreName,
	"http.chunk":      implHTTP,
	"http.index":      implHTTP,
	"sparse.ops":      implSparseOps,
	"sparse.accept":   implSparseAccept,
	"mh.accept":       implMhAccept,
	"verify.index":    implVerifyIndex,
	"arch.untar":      implUntar,
	"arch.tar":        implTar,
	"proto.read":      implProtoRead,
	"bst":             implBst,
	"mode.s2f":        implMode,
	"mode.f2s":        implMode,
	"mode.mkdev":      implMode,
	"mode.rdev":       implMode,
	"failover.accept": implFailoverAccept,
	"swap.accept":     implSwapAccept,
	"pool.accept":     implPoolAccept,
	"lfs.read":        implLfsRead,
	"lfs.clean":       implLfsClean,
	"lfs.sort":        implLfsSort,
	"tarfs.mode":      implTarfsMode,
	"tarfs.read":      implTarfsRead,
	"tarfs.tar":       implTarfsTar,
	"tarfs.write":     implTarfsWrite,
	"proto.serve":     implProtoServe,
	"proto.client":    implProtoClient,
	"proto.session":   implProtoSession,
	"s3.store":        implS3Store,
	"s3.get":          implS3Get,
	"s3.has":          implS3Has,
	"sftp.store":      implSftpStore,
	"sftp.get":        implSftpGet,
	"sftp.has":        implSftpHas,
	"mfs.index":       implMfsIndex,
	"mfs.sparse":      implMfsSparse,
	"cmdflow.run":     implCmdflowRun,
	"mtree.line":      implMtreeLine,
	"mtree.parse":     implMtreeParse,
	"mtree.name":      implMtreeName,
	"gcs.get":         implGcsGet,
	"gcs.store":       implGcsStore,
	"gcs.bulk":        implGcsBulk,
	"gcs.has":         implGcsHas,
	"gcs.prune":       implGcsPrune,
	"gcsindex.ops":    implGcsIndexOps,
	"so.srv":          implSoSrv,
	"so.glob":         implSoGlob,
	"so.locmatch":     implSoLocMatch,
	"so.store":        implSoStore,
	"so.index":        implSoIndex,
	"sshpool.accept":  implSshPoolAccept,
}

type replayFile struct {
	Property      string         `json:"property"`
	Seed          int64          `json:"seed"`
	Obligation    string         `json:"obligation,omitempty"`
	LeanError     string         `json:"lean_error,omitempty"`
	Disagreements []Disagreement `json:"disagreements"`
}

// runReplay re-executes the cases of a replay file on both sides.
func runReplay(cfg Config) {
	b, err := os.ReadFile(cfg.Replay)
	if err != nil {
		fatal(err)
	}
	var rf replayFile
	if err := json.Unmarshal(b, &rf); err != nil {
		fatal(err)
	}
	m, err := StartModel(cfg.Driver)
	if err != nil {
		fatal(err)
	}
	defer m.Close()
	batchModel = m
	bad := 0
	for _, d := range rf.Disagreements {
		cmd := strings.SplitN(d.Case, " ", 2)[0]
		f, ok := impls[cmd]
		if !ok {
			fmt.Printf("replay: no in-process runner for %q (what: %s)\n", cmd, d.What)
			continue
		}
		g, w := f(d.Case), m.Ask(d.Case)
		fmt.Printf("case:  %s\nimpl:  %s\nmodel: %s\n", clip(d.Case, 300), clip(g, 300), clip(w, 300))
		if g != w {
			bad++
		}
	}
	if bad > 0 {
		fmt.Printf("replay: %d case(s) still differ\n", bad)
		os.Exit(1)
	}
	fmt.Println("replay: no difference")
}
