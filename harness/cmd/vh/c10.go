package main

import (
	"fmt"
	"io"
	"math/rand"
	"os"
	"path/filepath"
	"runtime"
	"strconv"
	"strings"
	"sync"
	"time"

	"github.com/folbricht/desync"
)

var c10dir string

func implSparseOps(line string) string {
	_, a := parseCase(line)
	blobs := map[int][]byte{}
	if a["blobs"] != "" {
		for _, p := range strings.Split(a["blobs"], ";") {
			f := strings.SplitN(p, "=", 2)
			k, _ := strconv.Atoi(f[0])
			blobs[k] = unhx(f[1])
		}
	}
	var max uint64
	fmt.Sscan(a["max"], &max)
	idx := desync.Index{Index: desync.FormatIndex{ChunkSizeMax: max}}
	store := &scriptedStore{data: map[desync.ChunkID][]byte{}, fail: map[int]bool{}}
	if a["chunks"] != "" {
		for _, p := range strings.Split(a["chunks"], ",") {
			f := strings.Split(p, ":")
			k, _ := strconv.Atoi(f[0])
			var st, sz uint64
			fmt.Sscan(f[1], &st)
			fmt.Sscan(f[2], &sz)
			id := desync.Digest.Sum(blobs[k])
			idx.Chunks = append(idx.Chunks, desync.IndexChunk{ID: id, Start: st, Size: sz})
			store.data[id] = blobs[k]
		}
	}
	if a["fail"] != "" {
		for _, f := range strings.Split(a["fail"], ",") {
			k, _ := strconv.Atoi(f)
			store.fail[k] = true
		}
	}
	if c10dir == "" {
		c10dir, _ = os.MkdirTemp("", "verif-c10-")
	}
	name := filepath.Join(c10dir, "sparse")
	state := filepath.Join(c10dir, "state")
	os.Remove(name)
	os.Remove(state)
	return guard(func() string {
		sf, err := desync.NewSparseFile(name, idx, store, desync.SparseFileOptions{StateSaveFile: state})
		if err != nil {
			return "open-error"
		}
		h, err := sf.Open()
		if err != nil {
			return "open-error"
		}
		defer func() { h.Close() }()
		var out []string
		for _, op := range strings.Split(a["ops"], ",") {
			if op == "" {
				continue
			}
			switch op[0] {
			case 'R':
				f := strings.Split(op[1:], ":")
				off, _ := strconv.ParseInt(f[0], 10, 64)
				n, _ := strconv.Atoi(f[1])
				buf := make([]byte, n)
				k, err := h.ReadAt(buf, off)
				switch {
				case err == nil:
					out = append(out, "d:"+hx(buf[:k]))
				case err == io.EOF:
					out = append(out, "d:"+hx(buf[:k])+":eof")
				default:
					out = append(out, "x")
				}
			case 'M': // the same request through the sparse mount's file node (sparseIndexFile.Read)
				f := strings.Split(op[1:], ":")
				off, _ := strconv.ParseInt(f[0], 10, 64)
				n, _ := strconv.Atoi(f[1])
				mf, err := desync.VerifNewSparseMountFile(sf)
				if err != nil {
					out = append(out, "m:open-error")
					break
				}
				if b, ok := mf.Read(make([]byte, n), off); ok {
					out = append(out, "m:"+hx(b))
				} else {
					out = append(out, "m:EIO")
				}
				mf.Close()
			case 'S':
				if err := sf.WriteState(); err != nil {
					out = append(out, "s-error")
				} else {
					out = append(out, "s")
				}
			case 'D':
				store.mu.Lock()
				store.down = true
				store.mu.Unlock()
				out = append(out, "dn")
			case 'U':
				store.mu.Lock()
				store.down = false
				store.mu.Unlock()
				out = append(out, "up")
			case 'O':
				h.Close()
				opts := desync.SparseFileOptions{StateSaveFile: state}
				if strings.HasSuffix(op, "m") { // a start that fails: the state-init file it is given does not exist
					switch op[1] {
					case '2':
						os.Remove(name)
					case '3':
						if st, err := os.Stat(name); err == nil {
							os.Truncate(name, st.Size()/2)
						}
					}
					bad := opts
					bad.StateInitFile = filepath.Join(c10dir, "no-such-state-file")
					if _, err := desync.NewSparseFile(name, idx, store, bad); err == nil {
						out = append(out, "unexpected-open")
					} else {
						out = append(out, "open-failed")
					}
					// the process would end here; the next op must be another start
					continue
				}
				if strings.HasSuffix(op, "i") { // pre-load from a copy of the state file as it is now
					b, _ := os.ReadFile(state)
					os.WriteFile(state+".init", b, 0644)
					opts.StateInitFile = state + ".init"
					opts.StateInitConcurrency = 2
				}
				if strings.HasSuffix(op, "j") { // state-init and state-save are the same file (documented as allowed): it is
					// read before the state file is blanked, so the pre-load sees what was saved
					opts.StateInitFile = state
					opts.StateInitConcurrency = 2
				}
				goroutines := runtime.NumGoroutine()
				switch op[1] {
				case '1':
					os.Remove(state)
				case '2':
					os.Remove(name)
				case '3':
					if st, err := os.Stat(name); err == nil {
						os.Truncate(name, st.Size()/2)
					}
				}
				sf, err = desync.NewSparseFile(name, idx, store, opts)
				if err != nil {
					return strings.Join(append(out, "open-error"), ",")
				}
				if opts.StateInitFile != "" {
					// the pre-load runs in background goroutines (a feeder and the workers) that end when it is
					// done: wait for them to be gone (no timing assumption; gives up after 20 s)
					for t0 := time.Now(); runtime.NumGoroutine() > goroutines && time.Since(t0) < 20*time.Second; {
						time.Sleep(200 * time.Microsecond)
					}
				}
				h, err = sf.Open()
				if err != nil {
					return strings.Join(append(out, "open-error"), ",")
				}
				out = append(out, "o")
			}
		}
		return strings.Join(out, ",")
	})
}

func runC10(cfg Config) {
	rep := NewReport("C10", cfg.Tier, cfg.Seed,
		"blobs (empty, single chunk, many chunks, runs of null chunks) x histories of ReadAt(offset,len incl. zero-length, spanning, at/after "+
			"the end), WriteState, and restarts (with saved state; state file removed; cache file removed; cache file truncated) x scripted "+
			"transient store failures at arbitrary call numbers, vs the model; concurrent readers (goroutines) on one sparse file with a "+
			"failing store; monitor: every successful read equals the blob's range; 2-5 ReadAt callers with overlapping ranges plus the pre-load "+
			"goroutines on one sparse file under a cooperative scheduler (verifSparse hooks; scripted store/Data()/write failures, null chunks): the "+
			"recorded event trace must be a behaviour of the Lean machine SparseConc.step (sparse.accept), final call results, bitmap and cache file flags "+
			"must agree. non-trivial = distinct history with >= 2 chunks and >= 3 ops")
	m, err := StartModel(cfg.Driver)
	if err != nil {
		fatal(err)
	}
	defer m.Close()
	c10dir = cfg.Work
	rng := rand.New(rand.NewSource(cfg.Seed))
	monitor := func(what, caseLine, impl string) {
		rep.Disagree(Disagreement{Kind: "monitor", Case: clip(caseLine, 100000), Impl: clip(impl, 1000), What: what})
	}
	n := cfg.N(2500, 60000)
	for it := 0; it < n; it++ {
		max := uint64(8 + rng.Intn(24))
		nch := rng.Intn(8)
		switch rng.Intn(6) {
		case 0:
			nch = 0
		case 1:
			nch = 1
		case 2:
			nch = 8 + rng.Intn(20)
		}
		c := ipCase{ids: map[desync.ChunkID]int{}, store: map[desync.ChunkID][]byte{}}
		c.idx.Index.ChunkSizeMax = max
		for i := 0; i < nch; i++ {
			var b []byte
			switch rng.Intn(4) {
			case 0:
				b = make([]byte, max)
			default:
				b = randBytes(rng, 1+rng.Intn(int(max)))
				if rng.Intn(5) == 0 {
					b[0] = 0 // blobs that start with a zero byte: stale zeros would go unnoticed otherwise
				}
			}
			id := desync.Digest.Sum(b)
			if _, ok := c.ids[id]; !ok {
				c.ids[id] = len(c.ids) + 1
			}
			c.store[id] = b
			c.idx.Chunks = append(c.idx.Chunks, desync.IndexChunk{ID: id, Start: uint64(len(c.blob)), Size: uint64(len(b))})
			c.blob = append(c.blob, b...)
		}
		L := len(c.blob)
		var ops []string
		nops := 1 + rng.Intn(10)
		for k := 0; k < nops; k++ {
			switch r := rng.Intn(12); {
			case r < 8:
				off := rng.Intn(L + 4)
				ln := rng.Intn(int(max)*3 + 1)
				if rng.Intn(8) == 0 {
					ln = 0
				}
				ops = append(ops, fmt.Sprintf("%s%d:%d", []string{"R", "R", "M"}[rng.Intn(3)], off, ln))
			case r < 10:
				ops = append(ops, "S")
			default:
				ops = append(ops, fmt.Sprintf("O%d", rng.Intn(4)))
			}
		}
		var fail []int
		if it%5 == 4 && nch > 0 {
			// histories with pre-loading restarts (state-init = state-save file) and a store that goes down and
			// comes back; no per-call failures (the pre-load's call order is not deterministic)
			ops = nil
			down := false
			for k := 0; k < 3+rng.Intn(10); k++ {
				switch r := rng.Intn(14); {
				case r < 6:
					ops = append(ops, fmt.Sprintf("%s%d:%d", []string{"R", "R", "M"}[rng.Intn(3)], rng.Intn(L+4), rng.Intn(int(max)*3+1)))
				case r < 8:
					ops = append(ops, "S")
				case r < 9:
					ops = append(ops, "D")
					down = true
				case r < 10:
					ops = append(ops, "U")
					down = false
				case r < 12:
					ops = append(ops, fmt.Sprintf("O%d%s", []int{0, 2, 3}[rng.Intn(3)], []string{"i", "i", "j"}[rng.Intn(3)]))
					if !down {
						// with the store up the background pre-load races with the state written at the end of
						// NewSparseFile: save again once it has settled, so that the state file is defined
						ops = append(ops, "S")
					}
				default:
					ops = append(ops, fmt.Sprintf("O%d", rng.Intn(4)))
				}
			}
			if it%15 == 9 {
				// directed: populate and save; the cache file is lost; a start that fails after it has
				// re-created the cache file (missing state-init file); then a normal start
				ops = []string{fmt.Sprintf("R0:%d", L), "S", fmt.Sprintf("O%dm", []int{2, 3, 0}[rng.Intn(3)]), "O0", fmt.Sprintf("R0:%d", L),
					fmt.Sprintf("R%d:%d", rng.Intn(L+1), rng.Intn(int(max)*2+1))}
			}
			if it%15 == 4 {
				// directed: populate and save; the cache file is lost; a restart re-creates it and starts to
				// pre-load while the store is down; the process ends without another save; the next start finds
				// a cache file of the right size and whatever state file the interrupted start left
				ops = []string{fmt.Sprintf("R0:%d", L), "S", "D", fmt.Sprintf("O%d%s", []int{2, 3}[rng.Intn(2)], []string{"i", "j"}[rng.Intn(2)])}
				if rng.Intn(2) == 0 {
					ops = append(ops, "U")
				}
				ops = append(ops, "O0", "U", fmt.Sprintf("R0:%d", L), fmt.Sprintf("R%d:%d", rng.Intn(L+1), rng.Intn(int(max)*2+1)))
			}
			nops = len(ops)
		} else if rng.Intn(2) == 0 {
			for k := 0; k < 1+rng.Intn(4); k++ {
				fail = append(fail, rng.Intn(10))
			}
		}
		line := strings.Replace(c.line(ops, fail), "ip.ops", "sparse.ops", 1) + fmt.Sprintf(" max=%d", max)
		got := implSparseOps(line)
		rep.Compare(m, line, implSparseOps, nil)
		rep.Count(line, nch >= 2 && nops >= 3, "sparse", "chunks:"+bucket(nch), fmt.Sprintf("fail:%v", len(fail) > 0))
		if got == "panic" {
			monitor("sparse file panicked", line, got)
			continue
		}
		res := strings.Split(got, ",")
		for k, r := range res {
			if k >= len(ops) || ops[k][0] != 'R' || !strings.HasPrefix(r, "d:") {
				continue
			}
			f := strings.Split(ops[k][1:], ":")
			off, _ := strconv.Atoi(f[0])
			ln, _ := strconv.Atoi(f[1])
			data := unhx(strings.Split(r, ":")[1])
			end := off + ln
			if end > L {
				end = L
			}
			want := []byte{}
			if off < L {
				want = c.blob[off:end]
			}
			if string(data) != string(want) {
				monitor(fmt.Sprintf("read %d (offset %d, len %d) returned bytes that differ from the blob (stale data)", k, off, ln), line, got)
			}
		}
	}

	// concurrent readers and pre-load goroutines under a cooperative scheduler: trace validation (c10conc.go)
	runC10Conc(cfg, rep, m, rng)

	// concurrent readers on one sparse file with a store that fails some calls
	nc := cfg.N(150, 4000)
	for it := 0; it < nc; it++ {
		max := uint64(16)
		nch := 2 + rng.Intn(10)
		var blob []byte
		idx := desync.Index{Index: desync.FormatIndex{ChunkSizeMax: max}}
		data := map[desync.ChunkID][]byte{}
		for i := 0; i < nch; i++ {
			b := randBytes(rng, 1+rng.Intn(int(max)))
			b[0] = 0
			id := desync.Digest.Sum(b)
			data[id] = b
			idx.Chunks = append(idx.Chunks, desync.IndexChunk{ID: id, Start: uint64(len(blob)), Size: uint64(len(b))})
			blob = append(blob, b...)
		}
		st := &flakyStore{data: data, failEvery: 2 + rng.Intn(3)}
		name := filepath.Join(cfg.Work, "sparse-conc")
		os.Remove(name)
		sf, err := desync.NewSparseFile(name, idx, st, desync.SparseFileOptions{})
		if err != nil {
			continue
		}
		var wg sync.WaitGroup
		var mu sync.Mutex
		bad := ""
		for g := 0; g < 4; g++ {
			seed := rng.Int63()
			wg.Add(1)
			go func() {
				defer wg.Done()
				r := rand.New(rand.NewSource(seed))
				h, err := sf.Open()
				if err != nil {
					return
				}
				defer h.Close()
				for k := 0; k < 12; k++ {
					off := r.Intn(len(blob))
					ln := 1 + r.Intn(40)
					buf := make([]byte, ln)
					n, err := h.ReadAt(buf, int64(off))
					if err != nil && err != io.EOF {
						continue
					}
					if string(buf[:n]) != string(blob[off:off+n]) {
						mu.Lock()
						bad = fmt.Sprintf("offset %d len %d", off, ln)
						mu.Unlock()
					}
				}
			}()
		}
		wg.Wait()
		caseLine := fmt.Sprintf("sparse.concurrent it=%d chunks=%d failEvery=%d", it, nch, st.failEvery)
		rep.Count(caseLine, true, "sparse-concurrent")
		if bad != "" {
			monitor("concurrent sparse read returned bytes that differ from the blob ("+bad+")", caseLine, "")
		}
	}
	runMountFS10(cfg, rep, m, rng)
	rep.Write(cfg.Out)
}

// flakyStore fails every failEvery-th call
type flakyStore struct {
	mu        sync.Mutex
	data      map[desync.ChunkID][]byte
	failEvery int
	calls     int
}

func (s *flakyStore) GetChunk(id desync.ChunkID) (*desync.Chunk, error) {
	s.mu.Lock()
	s.calls++
	k := s.calls
	s.mu.Unlock()
	if k%s.failEvery == 0 {
		return nil, storeFailure(k / s.failEvery)
	}
	b, ok := s.data[id]
	if !ok {
		return nil, desync.ChunkMissing{ID: id}
	}
	return desync.NewChunkWithID(id, b, false)
}
func (s *flakyStore) HasChunk(id desync.ChunkID) (bool, error) { _, ok := s.data[id]; return ok, nil }
func (s *flakyStore) Close() error                             { return nil }
func (s *flakyStore) String() string                           { return "flaky" }
