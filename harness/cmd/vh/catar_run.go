package main

import (
	"net/http/httptest"
	"syscall"

	"bytes"
	"context"
	"encoding/binary"
	"fmt"
	"github.com/pkg/xattr"
	"math/rand"
	"os"
	"path/filepath"
	"runtime"
	"sort"
	"strings"
	"time"

	"github.com/folbricht/desync"
)

// compare with the model after stripping the model-only alloc figure; returns model alloc
func compareAlloc(rep *Report, m *Model, line string, impl func(string) string) (string, int) {
	got := impl(line)
	if m.cmd == nil {
		return got, 0
	}
	want, alloc := stripAlloc(m.Ask(line))
	if got != want {
		rep.Disagree(Disagreement{Kind: "correspondence", Case: clip(line, 100000), Model: clip(want, 2000), Impl: clip(got, 2000),
			What: "model and implementation differ"})
	}
	return got, alloc
}

// measureAlloc runs f and returns the bytes allocated by it (single-threaded harness)
func measureAlloc(f func()) uint64 {
	var a, b runtime.MemStats
	runtime.ReadMemStats(&a)
	f()
	runtime.ReadMemStats(&b)
	return b.TotalAlloc - a.TotalAlloc
}

var elemTypes = []uint64{desync.CaFormatEntry, desync.CaFormatUser, desync.CaFormatGroup, desync.CaFormatXAttr,
	desync.CaFormatACLUser, desync.CaFormatACLGroup, desync.CaFormatACLGroupObj, desync.CaFormatACLDefault,
	desync.CaFormatFCaps, desync.CaFormatSELinux, desync.CaFormatSymlink, desync.CaFormatDevice,
	desync.CaFormatPayload, desync.CaFormatFilename, desync.CaFormatGoodbye, desync.CaFormatIndex,
	desync.CaFormatTable, desync.CaFormatGoodbyeTailMarker, desync.CaFormatACLDefaultUser, 0, 12345}

func le(vs ...uint64) []byte {
	b := make([]byte, 8*len(vs))
	for i, v := range vs {
		binary.LittleEndian.PutUint64(b[i*8:], v)
	}
	return b
}

// ---------------------------------------------------------------------------------------
// C19: decoders survive arbitrary input

func runC19(cfg Config) {
	rep := NewReport("C19", cfg.Tier, cfg.Seed,
		"every element type x size field in {0,1,15,16,17,24,31,32,33,40,…,2^31,2^62,2^63,2^64-17..2^64-1} x tails of 0..200 bytes "+
			"through FormatDecoder.Next, UnTar (ArchiveDecoder), IndexFromReader and Protocol.ReadMessage; every truncation and "+
			"random field mutation of generated valid archives; random bytes. Compared with the model's verdict (ok/err kind/panic) and "+
			"monitored: no panic, heap allocated by the call <= 16*len(input) + 8*model alloc + 64KiB. non-trivial = distinct case line "+
			"longer than 16 bytes")
	m, err := StartModel(cfg.Driver)
	if err != nil {
		fatal(err)
	}
	defer m.Close()
	rng := rand.New(rand.NewSource(cfg.Seed))
	monitor := func(what, caseLine, impl, sig string) {
		rep.Disagree(Disagreement{Kind: "monitor", Case: clip(caseLine, 100000), Impl: clip(impl, 1000), What: what, Sig: sig})
	}
	one := func(cmd string, b []byte, impl func(string) string, tag string, measure bool) string {
		line := cmd + " bytes=" + hx(b)
		markCase(line)
		var got string
		var malloc int
		var used uint64
		if measure {
			used = measureAlloc(func() { got = impl(line) })
			_, malloc = compareAlloc(rep, m, line, impl)
		} else {
			got, malloc = compareAlloc(rep, m, line, impl)
		}
		rep.Count(line, len(b) > 16, cmd+":"+tag, cmd+"-result:"+strings.SplitN(got, " ", 2)[0]+":"+errKindOf(got))
		if got == "panic" {
			monitor("decoder panicked", line, got, "")
		}
		if measure && used > uint64(16*len(b)+8*malloc+65536) {
			monitor(fmt.Sprintf("decoder allocated %d bytes for a %d byte input", used, len(b)), line, got, "")
		}
		return got
	}

	// callers that do not read payloads to their end (FormatDecoder.advance): the whole stream is walked with Next; of each
	// payload the caller reads nothing, a little, all of it or asks for more than there is; the source can seek (bytes.Reader,
	// os.File) or only read.  Model: FDec.walk; theorems walk_independent_of_reads, stream_ending_inside_payload_is_error
	srcs := []string{"bytes", "file", "plain", "onebyte"}
	walk := func(b []byte, tag string, src string) string {
		var takes []string
		for i, n := 0, rng.Intn(5); i < n; i++ {
			takes = append(takes, fmt.Sprint([]int{0, 0, 1, rng.Intn(8), rng.Intn(300), 1 << 20}[rng.Intn(6)]))
		}
		line := "fmt.walk takes=" + strings.Join(takes, ",") + " src=" + src + " bytes=" + hx(b)
		markCase(line)
		got, _ := compareAlloc(rep, m, line, implFmtWalk)
		rep.Count(line, len(b) > 16, "fmt.walk:"+tag, "fmt.walk-src:"+src, "fmt.walk-result:"+strings.SplitN(got, " ", 2)[0]+":"+errKindOf(got))
		if got == "panic" {
			monitor("decoder panicked", line, got, "")
		}
		return got
	}

	// (1) every element type x boundary sizes x tails, through all four entry points
	tails := []int{0, 1, 7, 8, 9, 16, 24, 40, 200}
	for _, t := range elemTypes {
		for _, sz := range interestingU64 {
			for _, tl := range tails {
				b := append(le(sz, t), randBytes(rng, tl)...)
				if rng.Intn(3) == 0 && tl > 0 {
					b[len(b)-1] = 0
				}
				one("fmt.next", b, implFmtNext, "boundary", true)
				// the same element after a valid entry, through the archive decoder
				entry := le(64, desync.CaFormatEntry, desync.TarFeatureFlags, 0o100644, 0, 0, 0, 0)
				one("arch.untar", append(append([]byte{}, entry...), b...), implUntar, "boundary", true)
				one("arch.untar", b, implUntar, "boundary-noentry", false)
				if t == desync.CaFormatPayload {
					for _, src := range srcs {
						walk(b, "boundary", src)
						walk(append(append([]byte{}, entry...), b...), "boundary", src)
					}
				}
			}
		}
	}
	for _, sz := range interestingU64 {
		for _, tl := range tails {
			b := append(le(sz), randBytes(rng, tl)...)
			one("proto.read", b, implProtoRead, "boundary", true)
		}
	}

	// (2) truncations and mutations of valid archives
	nv := cfg.N(60, 1500)
	for it := 0; it < nv; it++ {
		recs := genRecords(rng, rng.Intn(6), 12)
		enc := tarRecs(recs)
		if enc == "err" || enc == "panic" {
			continue
		}
		b := unhx(enc)
		if got := one("arch.untar", b, implUntar, "valid", false); !strings.HasPrefix(got, "ok") {
			monitor("a valid archive is rejected", "arch.untar bytes="+enc, got, "")
		}
		step := 1
		if len(b) > 600 {
			step = 1 + len(b)/300
		}
		if got := walk(b, "valid", srcs[it%len(srcs)]); !strings.HasPrefix(got, "ok") {
			monitor("walking a valid archive fails", "fmt.walk bytes="+enc, got, "")
		}
		for k := 0; k < len(b); k += step {
			walk(b[:k], "prefix", srcs[(it+k)%len(srcs)])
			if got := one("arch.untar", b[:k], implUntar, "prefix", false); strings.HasPrefix(got, "ok") && k > 0 {
				// a strict prefix that ends at an element boundary *between nodes of the root's
				// children* still lacks the root's goodbye; the decoder does not require it (it
				// streams), so acceptance is only flagged when bytes of a node are missing
				_ = got
			}
		}
		for j := 0; j < 20; j++ {
			nb := append([]byte{}, b...)
			f := rng.Intn(len(nb) / 8)
			old := binary.LittleEndian.Uint64(nb[f*8:])
			var v uint64
			switch rng.Intn(5) {
			case 0:
				v = interestingU64[rng.Intn(len(interestingU64))]
			case 1:
				v = old + 1
			case 2:
				v = old - 1
			case 3:
				v = elemTypes[rng.Intn(len(elemTypes))]
			default:
				v = old ^ (1 << uint(rng.Intn(64)))
			}
			binary.LittleEndian.PutUint64(nb[f*8:], v)
			one("arch.untar", nb, implUntar, "mutated", j < 4)
			walk(nb, "mutated", srcs[j%len(srcs)])
		}
	}
	// (3) random bytes
	for it := 0; it < cfg.N(400, 20000); it++ {
		b := randBytes(rng, rng.Intn(300))
		one("fmt.next", b, implFmtNext, "random", false)
		one("arch.untar", b, implUntar, "random", false)
		one("proto.read", b, implProtoRead, "random", false)
	}
	// (4) protocol messages: valid round trip + truncations
	for it := 0; it < cfg.N(200, 5000); it++ {
		body := randBytes(rng, rng.Intn(100))
		var buf bytes.Buffer
		p := desync.NewProtocol(bytes.NewReader(nil), &buf)
		p.WriteMessage(desync.Message{Type: rng.Uint64(), Body: body})
		b := buf.Bytes()
		got := one("proto.read", b, implProtoRead, "valid", false)
		if !strings.HasPrefix(got, "ok") {
			monitor("a written protocol message does not read back", "proto.read bytes="+hx(b), got, "")
		}
		k := rng.Intn(len(b))
		if got := one("proto.read", b[:k], implProtoRead, "prefix", false); strings.HasPrefix(got, "ok") {
			monitor("a truncated protocol message is accepted", "proto.read bytes="+hx(b[:k]), got, "")
		}
	}
	// (5) an HTTP PUT to the index handler: the body is parsed as an index; the announced Content-Length is as
	// untrusted as the body.  No panic, memory in proportion to what was actually sent, malformed input refused.
	{
		dir := filepath.Join(cfg.Work, "c19-idx")
		os.MkdirAll(dir, 0755)
		ls, err := desync.NewLocalIndexStore(dir)
		if err == nil {
			h := desync.NewHTTPIndexHandler(ls, true, "")
			idx := desync.Index{Index: desync.FormatIndex{FeatureFlags: desync.CaFormatSHA512256, ChunkSizeMin: 16, ChunkSizeAvg: 64, ChunkSizeMax: 4096}}
			for k := 0; k < 20; k++ {
				idx.Chunks = append(idx.Chunks, desync.IndexChunk{ID: desync.Digest.Sum([]byte{byte(k)}), Start: uint64(k * 100), Size: 100})
			}
			var vb bytes.Buffer
			idx.WriteTo(&vb)
			valid := vb.Bytes()
			for it := 0; it < cfg.N(60, 1500); it++ {
				body, tag := valid, "valid"
				switch it % 4 {
				case 1:
					body, tag = valid[:rng.Intn(len(valid))], "truncated"
				case 2:
					body, tag = randBytes(rng, rng.Intn(200)), "random"
				case 3:
					body = append([]byte{}, valid...)
					binary.LittleEndian.PutUint64(body[rng.Intn(len(body)/8)*8:], interestingU64[rng.Intn(len(interestingU64))])
					tag = "mutated"
				}
				announced := []int64{int64(len(body)), int64(len(body)) + 1, 1 << 20, 128 << 20, 1 << 31, 1 << 40, 1 << 62, -1}[rng.Intn(8)]
				req := httptest.NewRequest("PUT", "/put.caibx", bytes.NewReader(body))
				req.ContentLength = announced
				rec := httptest.NewRecorder()
				panicked := ""
				alloc := measureAlloc(func() {
					panicked = guard(func() string { h.ServeHTTP(rec, req); return "" })
				})
				caseLine := fmt.Sprintf("http.index.put body=%s len=%d announced-content-length=%d bytes=%s", tag, len(body), announced, hx(body))
				rep.Count(caseLine, true, "index-put:"+tag, fmt.Sprintf("index-put-status:%d", rec.Code))
				if panicked != "" {
					monitor("the index handler panicked on a PUT", caseLine, panicked, "")
				}
				if alloc > uint64(64*len(body))+1<<20 {
					monitor(fmt.Sprintf("a PUT of %d bytes to the index handler allocated %d bytes (announced Content-Length %d)", len(body), alloc, announced), caseLine, "", "")
				}
				if _, derr := desync.IndexFromReader(bytes.NewReader(body)); derr != nil && rec.Code < 400 {
					monitor(fmt.Sprintf("a body that is not an index was answered with status %d", rec.Code), caseLine, "", "")
				}
			}
		}
	}
	// (6) the casync protocol server and client on arbitrary input streams (protosession.go): verdict, unread input and
	// every byte written vs the model, no panic, heap in proportion to the input
	runProtoSessions(cfg, rep, m, rng, cfg.N(20, 400), cfg.N(500, 12000))
	rep.Write(cfg.Out)
}

// ---------------------------------------------------------------------------------------
// C13: archives are well-formed catar

func runC13(cfg Config) {
	rep := NewReport("C13", cfg.Tier, cfg.Seed,
		"generated record streams (fan-out 0..N incl. every BST shape up to the tier's limit, names of 1..255 arbitrary bytes, nesting, "+
			"all node kinds incl. unsupported ones) -> Tar bytes vs model bytes (exact); independent well-formedness checker on the "+
			"implementation's bytes (element sizes, order, goodbye = complete BST over SipHash with back-offsets, sizes, tail); BST layout for "+
			"every n up to the limit; SipHash vs dchest/siphash; testdata/*.catar accepted. non-trivial = distinct stream with >= 2 records")
	m, err := StartModel(cfg.Driver)
	if err != nil {
		fatal(err)
	}
	defer m.Close()
	rng := rand.New(rand.NewSource(cfg.Seed))
	monitor := func(what, caseLine, impl string) {
		rep.Disagree(Disagreement{Kind: "monitor", Case: clip(caseLine, 100000), Impl: clip(impl, 1000), What: what})
	}
	// SipHash
	for it := 0; it < cfg.N(500, 20000); it++ {
		b := randBytes(rng, rng.Intn(70))
		line := "sip data=" + hx(b)
		rep.Compare(m, line, func(string) string { return fmt.Sprint(desync.SipHash(b)) }, nil)
		rep.Count(line, len(b) > 0, "sip")
	}
	// BST layout
	maxN := cfg.N(600, 6000)
	for n := 0; n <= maxN; n++ {
		if n > 300 && cfg.Tier == "quick" && n%7 != 0 && n&(n-1) != 0 && (n+1)&n != 0 {
			continue
		}
		line := fmt.Sprintf("bst n=%d", n)
		rep.Compare(m, line, implBst, nil)
		rep.Count(line, n > 1, "bst")
	}
	for _, n := range []int{8191, 8192, 16383, 16384, 32768, 65535, 65536, 70000} {
		if cfg.Tier != "thorough" && n > 9000 {
			continue
		}
		line := fmt.Sprintf("bst n=%d", n)
		rep.Compare(m, line, implBst, nil)
		rep.Count(line, true, "bst-large")
	}
	// archives
	check := func(recs []fileRec, tag string) {
		line := recsCase(recs)
		enc := tarRecs(recs)
		rep.Compare(m, line, implTar, nil)
		rep.Count(line, len(recs) > 1, "tar:"+tag, "tar-records:"+bucket(len(recs)))
		if enc == "err" || enc == "panic" {
			monitor("Tar failed on a generated tree", line, enc)
			return
		}
		if err := catarWellFormed(unhx(enc)); err != nil {
			monitor("archive is not well-formed catar: "+err.Error(), line, "")
		}
	}
	for it := 0; it < cfg.N(250, 6000); it++ {
		check(genRecords(rng, rng.Intn(12), 40), "tree")
	}
	// files whose content differs in length from the size the reader reported (changed after lstat; sysfs, procfs):
	// Tar fails, or the payload element holds exactly as many bytes as its size field says
	for it := 0; it < cfg.N(150, 3000); it++ {
		recs := genRecords(rng, 1+rng.Intn(8), 20)
		changed := false
		for i := range recs {
			if recs[i].kind == "reg" && rng.Intn(2) == 0 {
				recs[i].sizeD = []int{-1, 1, -len(recs[i].data), 3, -2, 40}[rng.Intn(6)]
				if len(recs[i].data)+recs[i].sizeD < 0 {
					recs[i].sizeD = -len(recs[i].data)
				}
				changed = changed || recs[i].sizeD != 0
			}
		}
		line := recsCase(recs)
		enc := tarRecs(recs)
		rep.Compare(m, line, implTar, nil)
		rep.Count(line, changed, "tar:size-mismatch", "tar-outcome:"+map[bool]string{true: "err", false: "ok"}[enc == "err"])
		if enc == "panic" {
			monitor("Tar panicked on a file whose content length differs from its size", line, enc)
		} else if enc != "err" {
			if err := catarWellFormed(unhx(enc)); err != nil {
				monitor("archive is not well-formed catar (a file's content length differs from its size): "+err.Error(), line, "")
			}
		}
	}
	// wide directories: every fan-out (BST shape) up to the limit
	wide := cfg.N(130, 1200)
	for n := 0; n <= wide; n++ {
		recs := []fileRec{{name: ".", path: ".", kind: "dir", perm: 0755}}
		names := make([]string, n)
		for i := range names {
			names[i] = fmt.Sprintf("e%05d", i)
		}
		sort.Strings(names)
		for _, nm := range names {
			recs = append(recs, fileRec{name: nm, path: nm, kind: "symlink", target: "t", perm: 0777})
		}
		check(recs, "wide")
	}
	for _, n := range []int{2047, 2048, 4095, 5000} {
		if cfg.Tier != "thorough" {
			break
		}
		recs := []fileRec{{name: ".", path: ".", kind: "dir", perm: 0755}}
		for i := 0; i < n; i++ {
			nm := fmt.Sprintf("e%05d", i)
			recs = append(recs, fileRec{name: nm, path: nm, kind: "symlink", target: "t", perm: 0777})
		}
		check(recs, "wide-large")
	}
	// an output that fails part-way: Tar must not report success for an archive that was cut off —
	// whenever it returns nil, what reached the writer is the complete, well-formed archive
	for it := 0; it < cfg.N(150, 3000); it++ {
		recs := genRecords(rng, rng.Intn(8), 30)
		full := tarRecs(recs)
		if full == "err" || full == "panic" {
			continue
		}
		total := len(unhx(full))
		room := rng.Intn(total + 1)
		switch rng.Intn(4) {
		case 0:
			room = total - 1 - rng.Intn(40) // in the tail: goodbye tables
		case 1:
			room = total - 1
		}
		if room < 0 {
			room = 0
		}
		lw := &limitWriter{room: room}
		res := guard(func() string {
			if err := desync.Tar(context.Background(), lw, &recReader{recs: recs}); err != nil {
				return "err"
			}
			return "ok"
		})
		line := fmt.Sprintf("tar.fault room=%d total=%d %s", room, total, recsCase(recs))
		rep.Count(line, true, "tar-fault:"+res)
		if res == "ok" && room < total {
			monitor(fmt.Sprintf("Tar reported success although its output failed after %d of %d bytes: the archive written is cut off", room, total), line, res)
		}
		if res == "panic" {
			monitor("Tar panicked on a failing output", line, res)
		}
	}
	// casync-made fixtures must satisfy the same grammar
	files, _ := filepath.Glob(filepath.Join(cfg.Repo, "testdata", "*.catar"))
	for _, f := range files {
		b, err := os.ReadFile(f)
		if err != nil {
			continue
		}
		if err := catarWellFormed(b); err != nil {
			monitor("testdata archive rejected by the grammar checker: "+filepath.Base(f)+": "+err.Error(), "file "+f, "")
		}
		line := "arch.untar bytes=" + hx(b)
		rep.Compare(m, line, implUntar, nil)
		rep.Count(line, true, "testdata")
	}
	// child names sorted when packing from disk: the order of the record stream LocalFS delivers (lfsread.go)
	lfsReadCases(cfg, rep, m, rand.New(rand.NewSource(cfg.Seed^0x1f13)), cfg.N(12, 300))
	c13CLI(cfg, rep, rng, monitor)
	c13CLIFaults(cfg, rep, rand.New(rand.NewSource(cfg.Seed^0x6661756c74)), monitor) // cliarch.go: desync tar on damaged input, with and without -i
	rep.Write(cfg.Out)
}

// c13CLI: the real `desync tar`: the file it leaves at the output path is the archive of the tree (byte for byte what
// the library writes for it, well-formed, nothing after it) — also when the path held a longer archive before
func c13CLI(cfg Config, rep *Report, rng *rand.Rand, monitor func(what, caseLine, impl string)) {
	bin := desyncBin()
	if bin == "" {
		rep.Notes = append(rep.Notes, "desync binary not built: command-line tar runs skipped")
		return
	}
	dir := filepath.Join(cfg.Work, "cli13")
	defer os.RemoveAll(dir)
	for it := 0; it < cfg.N(4, 40); it++ {
		out := filepath.Join(dir, "out.catar")
		os.RemoveAll(dir)
		os.MkdirAll(dir, 0755)
		sizes := []int{25 + rng.Intn(20), 1 + rng.Intn(4), 8 + rng.Intn(8)} // a big tree, then a small one, then a medium one
		if it%2 == 1 {
			sizes = []int{2, 30, 3}
		}
		for round, nfiles := range sizes {
			tree := filepath.Join(dir, fmt.Sprintf("tree%d", round))
			os.MkdirAll(filepath.Join(tree, "sub"), 0755)
			for k := 0; k < nfiles; k++ {
				d := []string{"", "sub"}[k%2]
				os.WriteFile(filepath.Join(tree, d, fmt.Sprintf("f%03d", k)), randBytes(rng, rng.Intn(300)), 0644)
			}
			var want bytes.Buffer
			if err := desync.Tar(context.Background(), &want, desync.NewLocalFS(tree, desync.LocalFSOptions{})); err != nil {
				continue
			}
			r := runCLI(bin, nil, nil, 60*time.Second, "tar", out, tree)
			got, _ := os.ReadFile(out)
			caseLine := fmt.Sprintf("cli.tar it=%d round=%d files=%d archive=%d previous-file=%v", it, round, nfiles, want.Len(), round > 0)
			rep.Count(caseLine, true, "cli.tar", fmt.Sprintf("cli-exit0:%v", r.exit == 0))
			if r.exit != 0 {
				monitor("desync tar failed on a plain tree: "+clip(r.stderr, 200), caseLine, "")
				continue
			}
			if err := catarWellFormed(got); err != nil {
				monitor("the file desync tar leaves is not a well-formed catar: "+err.Error(), caseLine, "")
			} else if !bytes.Equal(got, want.Bytes()) {
				monitor(fmt.Sprintf("the file desync tar leaves (%d bytes) is not the archive of the tree (%d bytes)", len(got), want.Len()), caseLine, "")
			}
			// to stdout
			r2 := runCLI(bin, nil, nil, 60*time.Second, "tar", "-", tree)
			if r2.exit == 0 && r2.stdout != want.String() {
				monitor("desync tar to stdout does not write the archive of the tree", caseLine+" stdout", "")
			}
		}
	}
}

func implBst(line string) string {
	_, a := parseCase(line)
	var n int
	fmt.Sscan(a["n"], &n)
	return guard(func() string {
		in := make([]desync.FormatGoodbyeItem, n)
		for i := range in {
			in[i] = desync.FormatGoodbyeItem{Hash: uint64(i), Offset: uint64(i)}
		}
		out := desync.VerifMakeGoodbyeBST(in)
		s := make([]string, len(out))
		for i, o := range out {
			s[i] = fmt.Sprint(o.Hash)
		}
		return strings.Join(s, ",")
	})
}

// ---------------------------------------------------------------------------------------
// C18: unpacking never writes outside the destination

func runC18(cfg Config) {
	rep := NewReport("C18", cfg.Tier, cfg.Seed,
		"hostile element sequences (names '..', '.', '', with '/', absolute, with NUL, over-long, valid; symlink-then-entry orders; "+
			"extra goodbyes; nesting) -> UnTar with a recording writer vs model node list; and against LocalFS in a sandbox parent with "+
			"sentinel siblings and pre-existing symlinks pointing outside: after every run nothing outside dst was created, modified or "+
			"removed. non-trivial = distinct archive with >= 2 filename elements")
	m, err := StartModel(cfg.Driver)
	if err != nil {
		fatal(err)
	}
	defer m.Close()
	rng := rand.New(rand.NewSource(cfg.Seed))
	monitor := func(what, caseLine, impl string) {
		rep.Disagree(Disagreement{Kind: "monitor", Case: clip(caseLine, 100000), Impl: clip(impl, 1000), What: what})
	}
	hostileNames := []string{"..", ".", "", "a/b", "/abs", "../x", "a/../../x", "x\x00y", "ok", "dir", "link", "..\x00", "...", " ", strings.Repeat("A", 300), "a/", "/"}
	attrMode := false // set per archive: entries with varied owners, set-id/sticky bits and extended attributes
	entry := func(mode uint64) []byte {
		uid, gid := uint64(os.Getuid()), uint64(os.Getgid())
		var xs []byte
		if attrMode {
			if rng.Intn(2) == 0 {
				uid, gid = uint64(rng.Intn(3)*500), uint64(rng.Intn(3)*700)
			}
			if mode&0o170000 != 0o120000 && rng.Intn(2) == 0 {
				mode = mode&^0o7777 | uint64([]int{0o4755, 0o2755, 0o2745, 0o6711, 0o1777, 0o644, 0o600, 0o4700}[rng.Intn(8)])
			}
			for k := 0; k < rng.Intn(3); k++ {
				nv := fmt.Sprintf("user.k%d\x00%s", rng.Intn(3), string(randBytes(rng, rng.Intn(6))))
				xs = append(xs, append(le(uint64(16+len(nv)+1), desync.CaFormatXAttr), append([]byte(nv), 0)...)...)
			}
		}
		return append(le(64, desync.CaFormatEntry, desync.TarFeatureFlags, mode, 0, uid, gid, 1500000000_000000000), xs...)
	}
	fname := func(n string) []byte {
		return append(append(le(uint64(16+len(n)+1), desync.CaFormatFilename), []byte(n)...), 0)
	}
	payload := func(d []byte) []byte { return append(le(uint64(16+len(d)), desync.CaFormatPayload), d...) }
	symlink := func(t string) []byte {
		return append(append(le(uint64(16+len(t)+1), desync.CaFormatSymlink), []byte(t)...), 0)
	}
	goodbye := func() []byte {
		return le(16+24, desync.CaFormatGoodbye, 0, 40, desync.CaFormatGoodbyeTailMarker)
	}
	sandbox := filepath.Join(cfg.Work, "sandbox")
	n := cfg.N(1500, 40000)
	for it := 0; it < n; it++ {
		var b []byte
		b = append(b, entry(0o040755)...)
		nn := 1 + rng.Intn(6)
		depth := 0
		names := 0
		attrMode = it%2 == 0
		noname := it%4 == 1 // archives in which some entries come without a filename element
		benign := it%4 == 2 // only well-formed names: deeper runs, directories re-used after being left
		if benign || noname {
			nn = 3 + rng.Intn(10)
		}
		for k := 0; k < nn; k++ {
			name := hostileNames[rng.Intn(len(hostileNames))]
			if rng.Intn(3) == 0 || benign {
				name = fmt.Sprintf("n%d", rng.Intn(4))
			}
			if (benign || noname) && rng.Intn(4) != 0 {
				name = fmt.Sprintf("n%d", rng.Intn(2))
			}
			if benign && it%16 == 10 {
				// names that are prefixes of their siblings' names, in any order (an archive need not be sorted)
				name = []string{"n0", "n0.d", "n0x", "n", "n0.d"}[rng.Intn(5)]
			}
			fname := fname
			if noname && rng.Intn(3) == 0 {
				fname = func(string) []byte { return nil }
			}
			switch rng.Intn(7) {
			case 0, 1:
				b = append(b, fname(name)...)
				b = append(b, entry(0o100644)...)
				b = append(b, payload([]byte("data"))...)
				names++
			case 2:
				b = append(b, fname(name)...)
				b = append(b, entry(0o120777)...)
				tgt := []string{"/", "..", "../outside", "/tmp", "sibling", "../sentinel", "../outside/file", "../outside/created", "../created",
					filepath.Join(sandbox, "outside"), filepath.Join(sandbox, "outside"), "../../outside"}[rng.Intn(12)]
				if (benign || noname) && rng.Intn(3) != 0 {
					tgt = []string{filepath.Join(sandbox, "outside"), "../outside", "../../outside"}[rng.Intn(3)]
				}
				b = append(b, symlink(tgt)...)
				names++
				if rng.Intn(2) == 0 { // the same name again, as a regular file
					b = append(b, fname(name)...)
					b = append(b, entry(0o100600)...)
					b = append(b, payload([]byte("through the link?"))...)
					names++
				}
			case 3, 4:
				b = append(b, fname(name)...)
				b = append(b, entry(0o040755)...)
				depth++
				names++
			case 5:
				b = append(b, goodbye()...)
				depth--
			default:
				b = append(b, goodbye()...)
				b = append(b, goodbye()...)
			}
		}
		outs := []string{filepath.Join(sandbox, "outside"), "../outside", "../../outside"}
		if noname && it%8 == 1 {
			// directed: a directory is entered, then replaced through entries without a filename (a file,
			// then a symlink pointing outside), then a named entry follows
			d := fmt.Sprintf("n%d", rng.Intn(2))
			b = append(b, fname(d)...)
			b = append(b, entry(0o040755)...)
			b = append(b, fname("f")...)
			b = append(b, entry(0o100644)...)
			b = append(b, payload([]byte("y"))...)
			b = append(b, entry(0o100644)...)
			b = append(b, payload([]byte("x"))...)
			b = append(b, entry(0o120777)...)
			b = append(b, symlink(outs[rng.Intn(3)])...)
			b = append(b, fname("created")...)
			b = append(b, entry(0o100644)...)
			b = append(b, payload([]byte("through the replaced directory?"))...)
			depth++
		}
		if benign && it%16 == 6 {
			// directed: a directory with something in it, left again, and after it a regular file in the same parent
			// whose name is a prefix of the directory's name: the directory keeps its archived mtime
			for d := depth; d > 0 && rng.Intn(2) == 0; d-- {
				b = append(b, goodbye()...)
				depth--
			}
			b = append(b, fname("app.d")...)
			b = append(b, entry(0o040755)...)
			b = append(b, fname("conf")...)
			b = append(b, entry(0o100644)...)
			b = append(b, payload([]byte("c"))...)
			b = append(b, goodbye()...)
			b = append(b, fname("app")...)
			b = append(b, entry(0o100755)...)
			b = append(b, payload([]byte("a"))...)
		}
		if benign && it%8 == 2 {
			// directed: a directory is written and left, then its name is re-used for a file and for a
			// symlink pointing outside (the directory's recorded mtime must not follow the link)
			d := fmt.Sprintf("n%d", rng.Intn(2))
			b = append(b, fname(d)...)
			b = append(b, entry(0o040755)...)
			if rng.Intn(2) == 0 {
				b = append(b, fname("n0")...)
				b = append(b, entry(0o040755)...)
				b = append(b, goodbye()...)
			}
			b = append(b, goodbye()...)
			if rng.Intn(2) == 0 {
				// … and another directory is written in between (what was recorded for the first one is then not the
				// most recent record any more)
				b = append(b, fname("m")...)
				b = append(b, entry(0o040755)...)
				b = append(b, goodbye()...)
			}
			b = append(b, fname(d)...)
			b = append(b, entry(0o100644)...)
			b = append(b, payload([]byte("x"))...)
			b = append(b, fname(d)...)
			b = append(b, entry(0o120777)...)
			b = append(b, symlink(outs[rng.Intn(3)])...)
		}
		if benign && it%16 == 10 {
			// directed: a symlink to a file outside, then a regular file of the same name whose size and mtime are those of
			// the file the link points to (a writer that compares what is there with what is to be written must not look
			// through the link, and must not leave the link in place)
			for d := depth; d > 0; d-- {
				b = append(b, goodbye()...)
				depth--
			}
			tgt := []string{filepath.Join(sandbox, "outside", "file"), "../outside/file"}[rng.Intn(2)]
			b = append(b, fname("q")...)
			b = append(b, entry(0o120777)...)
			b = append(b, symlink(tgt)...)
			b = append(b, fname("q")...)
			b = append(b, entry(0o100777)...)
			b = append(b, payload([]byte("abcd"))...)
		}
		for ; depth >= 0; depth-- {
			b = append(b, goodbye()...)
		}
		line := "arch.untar bytes=" + hx(b)
		got, nodes := untarNodes(b)
		rep.Compare(m, line, implUntar, nil)
		rep.Count(line, names >= 2, "untar:"+strings.SplitN(got, " ", 2)[0]+":"+errKindOf(got))
		// monitor 1 (in memory): every node name handed to the writer is a clean relative path
		// without '..' components
		for _, nd := range nodes {
			f := strings.Split(nd, ":")
			name := string(unhx(f[1]))
			if name == "." {
				continue
			}
			for _, comp := range strings.Split(name, "/") {
				if comp == ".." || comp == "" || comp == "." || strings.ContainsRune(comp, 0) {
					monitor(fmt.Sprintf("node name %q handed to the filesystem writer is not confined", name), line, got)
				}
			}
			if strings.HasPrefix(name, "/") {
				monitor(fmt.Sprintf("absolute node name %q", name), line, got)
			}
		}
		// monitor 2 (on disk): unpack into sandbox/dst; sandbox/sentinel and sandbox/outside must be untouched
		if it%3 == 0 || noname || benign {
			os.RemoveAll(sandbox)
			dst := filepath.Join(sandbox, "dst")
			os.MkdirAll(dst, 0755)
			os.WriteFile(filepath.Join(sandbox, "sentinel"), []byte("keep"), 0644)
			os.MkdirAll(filepath.Join(sandbox, "outside"), 0755)
			os.WriteFile(filepath.Join(sandbox, "outside", "file"), []byte("keep"), 0644)
			os.MkdirAll(filepath.Join(sandbox, "outside", "n0"), 0755)
			long := time.Unix(1500000000, 0) // (the mtime the generated entries carry: an outside file may look "up to date")
			for _, o := range []string{"outside/n0", "outside/file", "outside", "sentinel"} {
				os.Chtimes(filepath.Join(sandbox, o), long, long)
			}
			if rng.Intn(2) == 0 { // pre-existing symlinks inside dst pointing outside
				os.Symlink(filepath.Join(sandbox, "outside"), filepath.Join(dst, "link"))
				os.Symlink("..", filepath.Join(dst, "n1"))
			}
			before := snapshotOutside(sandbox)
			initial := fsEntries(sandbox)
			nsp := rng.Intn(2) == 0
			nso := rng.Intn(2) == 0 || os.Getuid() != 0
			fs := desync.NewLocalFS(dst, desync.LocalFSOptions{NoSameOwner: nso, NoSamePermissions: nsp})
			var uerr error
			guard(func() string { uerr = desync.UnTar(context.Background(), bytes.NewReader(b), fs); return "" })
			after := snapshotOutside(sandbox)
			if before != after {
				monitor("unpacking changed something outside the destination directory: before ["+before+"] after ["+after+"]", line, got)
			}
			rep.Histogram["disk-runs"]++
			// correspondence of the LocalFS / POSIX model: same archive, same initial tree -> same final tree
			lline := fmt.Sprintf("lfs.untar root=%s nso=%d nsp=%d fs=%s bytes=%s", hx([]byte(dst)), b2i(nso), b2i(nsp), strings.Join(append(ancestorEntries(sandbox), initial...), ";"), hx(b))
			if want := m.Ask(lline); want != "no-model" {
				gotFS := "err"
				if uerr == nil {
					gotFS = "ok"
				}
				if diff := compareFS(want, gotFS, fsEntries(sandbox), sandbox); diff != "" {
					rep.Disagree(Disagreement{Kind: "correspondence", Case: clip(lline, 100000), Model: clip(want, 3000), Impl: clip(gotFS+" "+strings.Join(fsEntries(sandbox), ";"), 3000),
						What: "LocalFS model and the real file system differ after UnTar: " + diff})
				}
				rep.Count(lline, names >= 2, "lfs:"+gotFS, fmt.Sprintf("lfs-opts:nso=%v,nsp=%v,attrs=%v:%s", nso, nsp, attrMode, gotFS))
			}
		}
	}
	os.RemoveAll(sandbox)
	rep.Write(cfg.Out)
}

// snapshotOutside lists everything in the sandbox except the dst subtree (names, sizes, content of small files)
func snapshotOutside(sandbox string) string {
	var out []string
	filepath.Walk(sandbox, func(p string, info os.FileInfo, err error) error {
		if err != nil {
			return nil
		}
		rel, _ := filepath.Rel(sandbox, p)
		if rel == "dst" {
			if info.IsDir() {
				return filepath.SkipDir
			}
			return nil // the destination itself was replaced by a non-directory (an archive whose root is a file)
		}
		s := rel + ":" + info.Mode().String()
		if info.Mode().IsRegular() {
			b, _ := os.ReadFile(p)
			s += ":" + string(b) + ":" + info.ModTime().UTC().Format("2006-01-02T15:04:05")
		} else if info.IsDir() && rel != "." {
			// a directory's mtime changes when something is created or removed in it, or when it is set
			s += ":" + info.ModTime().UTC().Format("2006-01-02T15:04:05")
		}
		out = append(out, s)
		return nil
	})
	// also anything that escaped above the sandbox's parent is caught by the parent listing
	ents, _ := os.ReadDir(filepath.Dir(sandbox))
	for _, e := range ents {
		out = append(out, "parent:"+e.Name())
	}
	return strings.Join(out, ",")
}

// fsEntries lists the tree at top (links not followed) in the model's entry format:
// <hex real path>|<d|f|l|v>|<hex data or target>|<mtime ns>|<uid:gid>|<mode & 07777>|<khex=vhex,...>
func fsEntries(top string) []string {
	var out []string
	filepath.Walk(top, func(p string, info os.FileInfo, err error) error {
		if err != nil {
			return nil
		}
		mt := fmt.Sprint(info.ModTime().UnixNano())
		attr := "-|-|"
		if st, ok := info.Sys().(*syscall.Stat_t); ok {
			var xs []string
			if keys, err := xattr.LList(p); err == nil {
				sort.Strings(keys)
				for _, k := range keys {
					v, _ := xattr.LGet(p, k)
					xs = append(xs, hx([]byte(k))+"="+hx(v))
				}
			}
			attr = fmt.Sprintf("%d:%d|%d|%s", st.Uid, st.Gid, st.Mode&07777, strings.Join(xs, ","))
		}
		switch {
		case info.IsDir():
			out = append(out, hx([]byte(p))+"|d||"+mt+"|"+attr)
		case info.Mode()&os.ModeSymlink != 0:
			t, _ := os.Readlink(p)
			out = append(out, hx([]byte(p))+"|l|"+hx([]byte(t))+"|"+mt+"|"+attr)
		case info.Mode().IsRegular():
			b, _ := os.ReadFile(p)
			out = append(out, hx([]byte(p))+"|f|"+hx(b)+"|"+mt+"|"+attr)
		default:
			out = append(out, hx([]byte(p))+"|v||"+mt+"|"+attr)
		}
		return nil
	})
	return out
}

// ancestorEntries: the directories above top, as real directories
func ancestorEntries(top string) []string {
	var out []string
	for d := filepath.Dir(top); d != "/" && d != "."; d = filepath.Dir(d) {
		out = append(out, hx([]byte(d))+"|d||-|-|-|")
	}
	return out
}

// compareFS compares the model's answer ("ok|err fs=...") with the verdict and the tree on disk,
// restricted to the tree at top; an mtime is compared where the model says it was set explicitly
func compareFS(model, verdict string, disk []string, top string) string {
	parts := strings.SplitN(model, " fs=", 2)
	if len(parts) != 2 {
		return "model answered " + clip(model, 100)
	}
	if parts[0] != verdict {
		return "verdict: model " + parts[0] + ", implementation " + verdict
	}
	type ent struct{ kind, payload, mt, owner, mode, xattrs string }
	sortX := func(x string) string {
		if x == "" {
			return x
		}
		l := strings.Split(x, ",")
		sort.Strings(l)
		return strings.Join(l, ",")
	}
	parse := func(es []string) map[string]ent {
		m := map[string]ent{}
		for _, e := range es {
			f := strings.Split(e, "|")
			if len(f) != 7 {
				continue
			}
			p := string(unhx(f[0]))
			if p != top && !strings.HasPrefix(p, top+"/") {
				continue
			}
			m[p] = ent{f[1], f[2], f[3], f[4], f[5], sortX(f[6])}
		}
		return m
	}
	var mes []string
	if parts[1] != "" {
		mes = strings.Split(parts[1], ";")
	}
	mm, dm := parse(mes), parse(disk)
	var keys []string
	for k := range mm {
		keys = append(keys, k)
	}
	for k := range dm {
		if _, ok := mm[k]; !ok {
			keys = append(keys, k)
		}
	}
	sort.Strings(keys)
	for _, k := range keys {
		a, okA := mm[k]
		d, okD := dm[k]
		switch {
		case !okA:
			return "on disk only: " + k
		case !okD:
			return "in the model only: " + k
		case a.kind != d.kind || a.payload != d.payload:
			return fmt.Sprintf("%s: model %s:%s, disk %s:%s", k, a.kind, clip(a.payload, 40), d.kind, clip(d.payload, 40))
		case a.mt != "-" && a.mt != d.mt:
			return fmt.Sprintf("%s: mtime model %s, disk %s", k, a.mt, d.mt)
		case a.owner != "-" && a.owner != d.owner:
			return fmt.Sprintf("%s: owner model %s, disk %s", k, a.owner, d.owner)
		case a.mode != "-" && a.mode != d.mode:
			return fmt.Sprintf("%s: mode model %s, disk %s", k, a.mode, d.mode)
		case a.xattrs != d.xattrs:
			return fmt.Sprintf("%s: xattrs model %s, disk %s", k, a.xattrs, d.xattrs)
		}
	}
	return ""
}

// limitWriter accepts room bytes and fails from then on (a full disk, a closed pipe)
type limitWriter struct {
	room int
	buf  bytes.Buffer
}

func (w *limitWriter) Write(p []byte) (int, error) {
	if len(p) <= w.room {
		w.room -= len(p)
		w.buf.Write(p)
		return len(p), nil
	}
	n := w.room
	w.buf.Write(p[:n])
	w.room = 0
	return n, fmt.Errorf("no space left on device")
}
