package main

import (
	"fmt"
	"io"
	"math/rand"
	"net/http"
	"net/http/httptest"
	"net/url"
	"os"
	"path/filepath"
	"sort"
	"strings"
	"sync"

	"github.com/folbricht/desync"
)

// corruptions of a stored object
func corruptions(rng *rand.Rand, good, other []byte) map[string][]byte {
	out := map[string][]byte{}
	out["intact"] = good
	if len(good) > 0 {
		b := append([]byte{}, good...)
		b[0] ^= 1 << uint(rng.Intn(8))
		out["flip-first"] = b
		b = append([]byte{}, good...)
		b[len(b)-1] ^= 1 << uint(rng.Intn(8))
		out["flip-last"] = b
		b = append([]byte{}, good...)
		b[rng.Intn(len(b))] ^= 1 << uint(rng.Intn(8))
		out["flip-random"] = b
		out["truncated-1"] = good[:len(good)-1]
		out["truncated-half"] = good[:len(good)/2]
		out["truncated-random"] = good[:rng.Intn(len(good))]
		out["extended"] = append(append([]byte{}, good...), byte(rng.Intn(256)))
	}
	out["empty"] = []byte{}
	out["garbage"] = randBytes(rng, 1+rng.Intn(100))
	out["other-object"] = other
	return out
}

// a scripted HTTP server: serves the bytes registered for a path, 404 otherwise
type rawHTTP struct {
	mu   sync.Mutex
	objs map[string][]byte
}

func (h *rawHTTP) ServeHTTP(w http.ResponseWriter, r *http.Request) {
	h.mu.Lock()
	b, ok := h.objs[r.URL.Path]
	h.mu.Unlock()
	if !ok {
		http.NotFound(w, r)
		return
	}
	w.Write(b)
}

// casync protocol peer answering every request with the registered raw bytes
func rawProtocolStore(objs map[desync.ChunkID][]byte) (*desync.Protocol, func()) {
	return rawProtocolStoreLabelled(&sync.Mutex{}, objs, nil)
}

// label: the ID the peer puts into its reply instead of the requested one (a peer that labels
// what it sends by content, or a stale reply on a reused session)
func rawProtocolStoreLabelled(mu *sync.Mutex, objs map[desync.ChunkID][]byte, label map[desync.ChunkID]desync.ChunkID) (*desync.Protocol, func()) {
	cr, sw := io.Pipe() // server -> client
	sr, cw := io.Pipe() // client -> server
	server := desync.NewProtocol(sr, sw)
	client := desync.NewProtocol(cr, cw)
	done := make(chan struct{})
	go func() {
		defer close(done)
		if _, err := server.Initialize(desync.CaProtocolReadableStore); err != nil {
			return
		}
		for {
			m, err := server.ReadMessage()
			if err != nil || m.Type != desync.CaProtocolRequest || len(m.Body) < 40 {
				return
			}
			var id desync.ChunkID
			copy(id[:], m.Body[8:40])
			mu.Lock()
			raw, ok := objs[id]
			as, relabel := label[id]
			mu.Unlock()
			if ok {
				if relabel {
					server.SendProtocolChunk(as, desync.CaProtocolChunkCompressed, raw)
				} else {
					server.SendProtocolChunk(id, desync.CaProtocolChunkCompressed, raw)
				}
			} else {
				server.SendMissing(id)
			}
		}
	}()
	client.Initialize(desync.CaProtocolPullChunks)
	return client, func() { cw.Close(); sw.Close(); <-done }
}

type protoStore struct{ p *desync.Protocol }

func (s protoStore) GetChunk(id desync.ChunkID) (*desync.Chunk, error) { return s.p.RequestChunk(id) }
func (s protoStore) HasChunk(id desync.ChunkID) (bool, error) {
	_, err := s.p.RequestChunk(id)
	return err == nil, nil
}
func (s protoStore) Close() error   { return nil }
func (s protoStore) String() string { return "proto" }

func storeErrKind(err error) string {
	switch err.(type) {
	case desync.ChunkMissing:
		return "missing"
	case desync.ChunkInvalid:
		return "invalid"
	}
	s := err.Error()
	if strings.Contains(s, "does not match its hash") {
		return "invalid"
	}
	if strings.Contains(s, "missing from store") {
		return "missing"
	}
	return "other"
}

// getResult canonicalises GetChunk + Data()
func getResult(s desync.Store, id desync.ChunkID) string {
	return guard(func() string {
		c, err := s.GetChunk(id)
		if err != nil {
			return storeErrKind(err)
		}
		b, err := c.Data()
		if err != nil {
			return "ok nodata"
		}
		return "ok " + hx(b)
	})
}

func runC03(cfg Config) {
	rep := NewReport("C03", cfg.Tier, cfg.Seed,
		"chunks of 1..600 bytes (random, zero, compressible) x stored-object corruptions (intact, bit flip first/last/random, every "+
			"truncation class, extended, empty, garbage, another chunk's valid object, raw data in a compressed slot and vice versa) x "+
			"backends (local files, HTTP via httptest, casync protocol over pipes) x compressed/uncompressed x skip-verify on/off x wrapper "+
			"stacks (cache, repairable cache, router, failover, dedup queue, write dedup queue, swap): GetChunk+Data() vs the model "+
			"(NewChunkFromStorage with dec = desync.Decompress(raw)); monitor: delivered data hashes to the requested ID unless verification "+
			"was disabled. non-trivial = distinct case whose stored object is non-empty")
	m, err := StartModel(cfg.Driver)
	if err != nil {
		fatal(err)
	}
	defer m.Close()
	rng := rand.New(rand.NewSource(cfg.Seed))
	monitor := func(what, caseLine, impl string) {
		rep.Disagree(Disagreement{Kind: "monitor", Case: clip(caseLine, 100000), Impl: clip(impl, 400), What: what})
	}

	s3f := newFakeS3()
	defer s3f.Close()
	s3stores := map[string]desync.S3Store{}
	sshWrap, sshErr := sftpWrapper(cfg.Work)
	hsrv := &rawHTTP{objs: map[string][]byte{}}
	ts := httptest.NewServer(hsrv)
	defer ts.Close()

	n := cfg.N(250, 6000)
	for it := 0; it < n; it++ {
		alg := []string{"sha512", "sha256"}[rng.Intn(2)]
		setDigest(alg)
		var data []byte
		switch rng.Intn(4) {
		case 0:
			data = make([]byte, 1+rng.Intn(600))
		case 1:
			data = []byte(strings.Repeat("abc", 1+rng.Intn(100)))
		default:
			data = randBytes(rng, 1+rng.Intn(300))
		}
		otherData := randBytes(rng, 1+rng.Intn(300))
		id := desync.Digest.Sum(data)
		if it%9 == 8 {
			// the all-zero ID: what `Chunk.ID()` yields when the data cannot be obtained; no stored object hashes to it
			id = desync.ChunkID{}
		}
		for _, comp := range []bool{true, false} {
			good, other := data, otherData
			if comp {
				good, _ = desync.Compress(data)
				other, _ = desync.Compress(otherData)
			}
			cors := corruptions(rng, good, other)
			// raw in a compressed slot / compressed in a raw slot
			if comp {
				cors["wrong-format"] = data
			} else {
				cors["wrong-format"], _ = desync.Compress(data)
			}
			for cname, raw := range cors {
				for _, skip := range []bool{false, true} {
					if skip && it%4 != 0 {
						continue
					}
					opt := desync.StoreOptions{Uncompressed: !comp, SkipVerify: skip, ErrorRetry: 0}
					// expected by the model
					dec := "err"
					if d, err := desync.Decompress(nil, raw); err == nil {
						dec = "ok:" + hx(d)
					}
					if !comp {
						dec = "ok:" + hx(raw)
					}
					line := fmt.Sprintf("chunk.fromstorage alg=%s id=%s raw=%s dec=%s comp=%d skip=%d", alg, hx(id[:]), hx(raw), dec, b2i(comp), b2i(skip))
					want := m.Ask(line)

					// local store
					dir := filepath.Join(cfg.Work, "store")
					os.RemoveAll(dir)
					os.MkdirAll(dir, 0755)
					ls, err := desync.NewLocalStore(dir, opt)
					if err != nil {
						fatal(err)
					}
					ext := ""
					if comp {
						ext = ".cacnk"
					}
					sid := hx(id[:])
					os.MkdirAll(filepath.Join(dir, sid[:4]), 0755)
					os.WriteFile(filepath.Join(dir, sid[:4], sid+ext), raw, 0644)

					// http store
					hsrv.mu.Lock()
					hsrv.objs = map[string][]byte{"/" + sid[:4] + "/" + sid + ext: raw}
					hsrv.mu.Unlock()
					u, _ := url.Parse(ts.URL)
					hs, err := desync.NewRemoteHTTPStore(u, opt)
					if err != nil {
						fatal(err)
					}

					backends := map[string]desync.Store{"local": ls, "http": hs}
					// S3: the same bytes as an object of a bucket in the in-process S3 service
					s3f.mu.Lock()
					s3f.objects = map[string][]byte{"bkt/pre/" + sid[:4] + "/" + sid + ext: raw}
					s3f.mu.Unlock()
					// (one client per option set: every minio client keeps its own idle connections)
					okey := fmt.Sprintf("%v/%v", comp, skip)
					if _, ok := s3stores[okey]; !ok {
						s3s, err := s3f.chunkStore("bkt", "pre/", opt)
						if err != nil {
							fatal(err)
						}
						s3stores[okey] = s3s
					}
					backends["s3"] = s3stores[okey]
					// SFTP: the local store's directory served by pkg/sftp's server (a child process per connection)
					var closers []func()
					if it%6 == 0 && sshErr == nil {
						os.Setenv("CASYNC_SSH_PATH", sshWrap)
						su, _ := url.Parse("sftp://localhost" + dir)
						if ss, err := desync.NewSFTPStore(su, desync.StoreOptions{N: 1, Uncompressed: !comp, SkipVerify: skip}); err == nil {
							backends["sftp"] = ss
							closers = append(closers, func() { ss.Close() })
						}
					}
					var closeProto func()
					if comp && !skip { // the protocol always carries compressed chunks and always verifies
						var label map[desync.ChunkID]desync.ChunkID
						if cname == "other-object" { // a self-consistent reply for a different chunk
							label = map[desync.ChunkID]desync.ChunkID{id: desync.Digest.Sum(otherData)}
						}
						p, cl := rawProtocolStoreLabelled(&sync.Mutex{}, map[desync.ChunkID][]byte{id: raw}, label)
						backends["proto"] = protoStore{p}
						closeProto = cl
					}
					for bname, st := range backends {
						stacks := map[string]desync.Store{"plain": st}
						if it%2 == 0 {
							cdir := filepath.Join(cfg.Work, "cache-"+bname)
							os.RemoveAll(cdir)
							os.MkdirAll(cdir, 0755)
							cl, _ := desync.NewLocalStore(cdir, desync.StoreOptions{})
							stacks["cache"] = desync.NewCache(st, cl)
							stacks["router"] = desync.NewStoreRouter(emptyStore{}, st)
							stacks["failover"] = desync.NewFailoverGroup(st, emptyStore{})
							stacks["dedup"] = desync.NewDedupQueue(st)
							stacks["swap"] = desync.NewSwapStore(st)
							if ws, ok := st.(desync.WriteStore); ok {
								stacks["writededup"] = desync.NewWriteDedupQueue(ws)
								stacks["repairable"] = desync.NewRepairableCache(ws)
							}
						}
						for sname, s := range stacks {
							got := getResult(s, id)
							exp := want
							if sname == "repairable" && exp == "invalid" {
								exp = "missing" // RepairableCache turns ChunkInvalid into ChunkMissing by design
							}
							if sname == "failover" && exp == "invalid" {
								exp = "missing" // the group fails over to its second (empty) member
							}
							if sname == "cache" && exp == "ok nodata" {
								exp = "other" // the cache cannot store a chunk without data: "failed to store in local cache"
							}
							tag := fmt.Sprintf("%s/%s", bname, sname)
							caseLine := line + " backend=" + tag
							rep.Count(caseLine, len(raw) > 0, "cor:"+cname, "backend:"+tag, "result:"+strings.SplitN(got, " ", 2)[0])
							if m.cmd != nil && got != exp {
								rep.Disagree(Disagreement{Kind: "correspondence", Case: clip(caseLine, 100000), Model: clip(exp, 300), Impl: clip(got, 300),
									What: "model and implementation differ (" + cname + ")"})
							}
							if !skip && got == "ok nodata" {
								monitor("with verification on, a store handed out a chunk object whose data cannot be obtained ("+cname+", "+tag+")", caseLine, got)
							}
							if !skip && strings.HasPrefix(got, "ok ") && got != "ok nodata" {
								sum := desync.Digest.Sum(unhx(got[3:]))
								if sum != id {
									monitor("delivered chunk data does not hash to the requested ID ("+cname+", "+tag+")", caseLine, got)
								}
							}
							if cname == "intact" && id != (desync.ChunkID{}) && got != "ok "+hx(data) {
								monitor("an intact stored chunk is not delivered ("+tag+")", caseLine, got)
							}
						}
					}
					if closeProto != nil {
						closeProto()
					}
					for _, c := range closers {
						c()
					}
				}
			}
		}
		setDigest("sha512")
	}

	// histories on one long-lived store instance: the stored object of an ID changes between reads
	// (repaired, damaged, replaced by another chunk's object); every read is judged on what is
	// stored at that moment
	for it := 0; it < cfg.N(150, 3000); it++ {
		comp := rng.Intn(2) == 0
		data := randBytes(rng, 1+rng.Intn(200))
		if rng.Intn(3) == 0 {
			data = make([]byte, 1+rng.Intn(300))
		}
		otherData := randBytes(rng, 1+rng.Intn(200))
		id := desync.Digest.Sum(data)
		good, other := data, otherData
		if comp {
			good, _ = desync.Compress(data)
			other, _ = desync.Compress(otherData)
		}
		cors := corruptions(rng, good, other)
		var names []string
		for k := range cors {
			names = append(names, k)
		}
		sort.Strings(names)
		opt := desync.StoreOptions{Uncompressed: !comp, ErrorRetry: 0}
		dir := filepath.Join(cfg.Work, "hstore")
		os.RemoveAll(dir)
		os.MkdirAll(dir, 0755)
		ls, _ := desync.NewLocalStore(dir, opt)
		ext := ""
		if comp {
			ext = ".cacnk"
		}
		sid := hx(id[:])
		os.MkdirAll(filepath.Join(dir, sid[:4]), 0755)
		u, _ := url.Parse(ts.URL)
		hs, _ := desync.NewRemoteHTTPStore(u, opt)
		pmu := &sync.Mutex{}
		pobjs := map[desync.ChunkID][]byte{}
		plabel := map[desync.ChunkID]desync.ChunkID{}
		backends := map[string]desync.Store{"local": ls, "http": hs, "local/dedup": desync.NewDedupQueue(ls), "local/swap": desync.NewSwapStore(ls),
			"local/router": desync.NewStoreRouter(emptyStore{}, ls)}
		var closeProto func()
		if comp {
			p, cl := rawProtocolStoreLabelled(pmu, pobjs, plabel)
			backends["proto"] = protoStore{p}
			closeProto = cl
		}
		hist := ""
		for step := 0; step < 2+rng.Intn(5); step++ {
			cname := names[rng.Intn(len(names))]
			if step == 0 && rng.Intn(2) == 0 {
				cname = "intact" // the typical history: read fine once, damaged later
			}
			raw := cors[cname]
			hist += cname + ">"
			os.WriteFile(filepath.Join(dir, sid[:4], sid+ext), raw, 0644)
			hsrv.mu.Lock()
			hsrv.objs = map[string][]byte{"/" + sid[:4] + "/" + sid + ext: raw}
			hsrv.mu.Unlock()
			pmu.Lock()
			pobjs[id] = raw
			delete(plabel, id)
			if cname == "other-object" {
				plabel[id] = desync.Digest.Sum(otherData)
			}
			pmu.Unlock()
			dec := "err"
			if d, err := desync.Decompress(nil, raw); err == nil {
				dec = "ok:" + hx(d)
			}
			if !comp {
				dec = "ok:" + hx(raw)
			}
			line := fmt.Sprintf("chunk.fromstorage alg=sha512 id=%s raw=%s dec=%s comp=%d skip=0", hx(id[:]), hx(raw), dec, b2i(comp))
			want := m.Ask(line)
			for bname, st := range backends {
				got := getResult(st, id)
				caseLine := line + " backend=" + bname + " history=" + hist
				rep.Count(caseLine, step > 0, "history", "backend:"+bname+"/history")
				if m.cmd != nil && got != want {
					rep.Disagree(Disagreement{Kind: "correspondence", Case: clip(caseLine, 100000), Model: clip(want, 300), Impl: clip(got, 300),
						What: "model and implementation differ on a long-lived store after the history " + hist})
				}
				if strings.HasPrefix(got, "ok ") && got != "ok nodata" && desync.Digest.Sum(unhx(got[3:])) != id {
					monitor("delivered chunk data does not hash to the requested ID after the history "+hist+" ("+bname+")", caseLine, got)
				}
			}
		}
		if closeProto != nil {
			closeProto()
		}
	}
	// the casync protocol client on arbitrary bytes from the server side (protosession.go; theorem session_never_wrong_chunk)
	runProtoSessions(cfg, rep, m, rng, 0, cfg.N(150, 6000))
	runRemoteStoresRead(cfg, rep, m, rng)
	runGCSRead(cfg, rep, m, rng)
	runC03Consumers(cfg, rep, rng)
	c03Held(cfg, rep, rng, s3f, sshWrap, sshErr == nil)
	storeOptsC03(cfg, rep, m, rng)
	rep.Write(cfg.Out)
}

func b2i(b bool) int {
	if b {
		return 1
	}
	return 0
}

type emptyStore struct{}

func (emptyStore) GetChunk(id desync.ChunkID) (*desync.Chunk, error) {
	return nil, desync.ChunkMissing{ID: id}
}
func (emptyStore) HasChunk(id desync.ChunkID) (bool, error) { return false, nil }
func (emptyStore) Close() error                             { return nil }
func (emptyStore) String() string                           { return "empty" }
