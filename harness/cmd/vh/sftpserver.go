package main

import (
	"fmt"
	"io"
	"os"
	"path/filepath"

	"github.com/pkg/sftp"
)

// stdio as the transport of an SFTP session: what `ssh host -s sftp` provides
type stdioRWC struct{}

func (stdioRWC) Read(p []byte) (int, error)  { return os.Stdin.Read(p) }
func (stdioRWC) Write(p []byte) (int, error) { return os.Stdout.Write(p) }
func (stdioRWC) Close() error                { return nil }

// sftpServerMain serves the local file system over SFTP on stdin/stdout (pkg/sftp's server, the
// library desync's client side comes from). desync starts it through CASYNC_SSH_PATH.
func sftpServerMain() {
	sftpServerLimits() // remotestores.go: an optional file size limit for the served tree
	srv, err := sftp.NewServer(stdioRWC{})
	if err != nil {
		os.Exit(3)
	}
	if err := srv.Serve(); err != nil && err != io.EOF {
		os.Exit(4)
	}
	os.Exit(0)
}

// sftpWrapper writes an executable that ignores its arguments (`host -s sftp`) and runs this
// binary as the SFTP server; returns its path for CASYNC_SSH_PATH
func sftpWrapper(dir string) (string, error) {
	self, err := os.Executable()
	if err != nil {
		return "", err
	}
	p := filepath.Join(dir, "fake-ssh")
	err = os.WriteFile(p, []byte(fmt.Sprintf("#!/bin/sh\nexec %s -child sftpserver\n", self)), 0755)
	return p, err
}
