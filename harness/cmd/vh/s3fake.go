package main

// A minimal in-process S3 service (path-style addressing, no authentication checks) that speaks
// the part of the protocol minio-go v6 uses for desync's S3 stores: ListObjectsV2, GET/HEAD/PUT/
// DELETE of objects.  Object listing is in key order, removing a missing key succeeds (204), a
// missing key reads as NoSuchKey — the documented S3 behaviour.

import (
	"bytes"
	"encoding/xml"
	"fmt"
	"io"
	"net/http"
	"net/http/httptest"
	"net/url"
	"sort"
	"strconv"
	"strings"
	"sync"
	"time"

	"github.com/folbricht/desync"
	minio "github.com/minio/minio-go/v6"
	"github.com/minio/minio-go/v6/pkg/credentials"
)

type fakeS3 struct {
	mu      sync.Mutex
	objects map[string][]byte // "bucket/key" -> body
	srv     *httptest.Server
	log     []string       // "METHOD key"
	failGet map[string]int // key -> status to answer instead (fault injection)
	// putBudget: when >= 0, the number of further PUTs that succeed; once it is used up every PUT is answered with
	// putFailStatus (507: the backend is full; 403: the credentials expired; 503: an outage longer than the retries)
	putBudget     int
	putFailStatus int
	// script: "METHOD key" -> the answers to the next requests of that kind, one per request ("200": handled normally;
	// "404k" NoSuchKey, "404b" NoSuchBucket, "trunc": 200 with a body shorter than announced, any other number: that
	// status with a fitting error code).  Used by remotestores.go.
	script map[string][]string
}

func newFakeS3() *fakeS3 {
	f := &fakeS3{objects: map[string][]byte{}, failGet: map[string]int{}, putBudget: -1, script: map[string][]string{}}
	f.srv = httptest.NewServer(http.HandlerFunc(f.serve))
	return f
}

func (f *fakeS3) Close() { f.srv.Close() }

func (f *fakeS3) keys(bucket, prefix string) []string {
	var ks []string
	for k := range f.objects {
		if strings.HasPrefix(k, bucket+"/") {
			key := strings.TrimPrefix(k, bucket+"/")
			if strings.HasPrefix(key, prefix) {
				ks = append(ks, key)
			}
		}
	}
	sort.Strings(ks)
	return ks
}

type s3Contents struct {
	Key          string
	LastModified string
	ETag         string
	Size         int
	StorageClass string
}

type s3ListResult struct {
	XMLName      xml.Name `xml:"ListBucketResult"`
	Name         string
	Prefix       string
	KeyCount     int
	MaxKeys      int
	IsTruncated  bool
	EncodingType string `xml:",omitempty"`
	Contents     []s3Contents
}

func s3Error(w http.ResponseWriter, status int, code, key string) {
	w.Header().Set("Content-Type", "application/xml")
	w.WriteHeader(status)
	fmt.Fprintf(w, `<?xml version="1.0" encoding="UTF-8"?><Error><Code>%s</Code><Message>%s</Message><Key>%s</Key><RequestId>1</RequestId><HostId>1</HostId></Error>`, code, code, key)
}

func (f *fakeS3) serve(w http.ResponseWriter, r *http.Request) {
	f.mu.Lock()
	defer f.mu.Unlock()
	p := strings.TrimPrefix(r.URL.Path, "/")
	parts := strings.SplitN(p, "/", 2)
	bucket := parts[0]
	key := ""
	if len(parts) == 2 {
		key = parts[1]
	}
	q := r.URL.Query()
	if key == "" {
		if _, ok := q["location"]; ok {
			w.Header().Set("Content-Type", "application/xml")
			fmt.Fprint(w, `<?xml version="1.0" encoding="UTF-8"?><LocationConstraint xmlns="http://s3.amazonaws.com/doc/2006-03-01/"></LocationConstraint>`)
			return
		}
		if r.Method == http.MethodGet && q.Get("list-type") == "2" {
			f.log = append(f.log, "LIST "+q.Get("prefix"))
			res := s3ListResult{Name: bucket, Prefix: q.Get("prefix"), MaxKeys: 1000}
			enc := q.Get("encoding-type") == "url"
			if enc {
				res.EncodingType = "url"
			}
			for _, k := range f.keys(bucket, q.Get("prefix")) {
				kk := k
				if enc {
					kk = url.QueryEscape(k)
					kk = strings.ReplaceAll(kk, "%2F", "/")
				}
				res.Contents = append(res.Contents, s3Contents{Key: kk, LastModified: "2020-01-01T00:00:00.000Z", ETag: `"0"`,
					Size: len(f.objects[bucket+"/"+k]), StorageClass: "STANDARD"})
			}
			res.KeyCount = len(res.Contents)
			w.Header().Set("Content-Type", "application/xml")
			b, _ := xml.Marshal(res)
			w.Write([]byte(xml.Header))
			w.Write(b)
			return
		}
		if r.Method == http.MethodHead || r.Method == http.MethodGet {
			w.WriteHeader(200) // bucket exists
			return
		}
		s3Error(w, 400, "InvalidRequest", "")
		return
	}
	full := bucket + "/" + key
	f.log = append(f.log, r.Method+" "+key)
	if sc := f.script[r.Method+" "+key]; len(sc) > 0 {
		f.script[r.Method+" "+key] = sc[1:]
		if sc[0] != "200" {
			f.scripted(w, r, sc[0], key)
			return
		}
	}
	switch r.Method {
	case http.MethodGet, http.MethodHead:
		if st, ok := f.failGet[key]; ok && st != 0 {
			s3Error(w, st, "InternalError", key)
			return
		}
		b, ok := f.objects[full]
		if !ok {
			if r.Method == http.MethodHead {
				w.WriteHeader(404)
				return
			}
			s3Error(w, 404, "NoSuchKey", key)
			return
		}
		w.Header().Set("ETag", `"0"`)
		w.Header().Set("Content-Type", "application/octet-stream")
		http.ServeContent(w, r, "", time.Date(2020, 1, 1, 0, 0, 0, 0, time.UTC), bytes.NewReader(b))
	case http.MethodPut:
		b, _ := io.ReadAll(r.Body)
		b = awsUnchunk(r, b)
		if f.putFailStatus != 0 && f.putBudget == 0 {
			code := map[int]string{507: "XMinioStorageFull", 403: "AccessDenied", 503: "SlowDown"}[f.putFailStatus]
			s3Error(w, f.putFailStatus, code, key)
			return
		}
		if f.putBudget > 0 {
			f.putBudget--
		}
		f.objects[full] = b
		w.Header().Set("ETag", `"0"`)
		w.WriteHeader(200)
	case http.MethodDelete:
		delete(f.objects, full)
		w.WriteHeader(204)
	default:
		s3Error(w, 405, "MethodNotAllowed", key)
	}
}

// scripted answers one request as the script says
func (f *fakeS3) scripted(w http.ResponseWriter, r *http.Request, o, key string) {
	io.Copy(io.Discard, r.Body)
	switch o {
	case "404k":
		s3Error(w, 404, "NoSuchKey", key)
	case "404b":
		s3Error(w, 404, "NoSuchBucket", key)
	case "trunc":
		w.Header().Set("ETag", `"0"`)
		w.Header().Set("Content-Type", "application/octet-stream")
		w.Header().Set("Last-Modified", "Wed, 01 Jan 2020 00:00:00 GMT")
		w.Header().Set("Content-Length", "1000")
		w.WriteHeader(200)
		w.Write([]byte("short"))
		if hj, ok := w.(http.Hijacker); ok {
			if c, _, err := hj.Hijack(); err == nil {
				c.Close()
			}
		}
	default:
		st, _ := strconv.Atoi(o)
		code := map[int]string{507: "XMinioStorageFull", 403: "AccessDenied", 400: "InvalidRequest", 409: "OperationAborted", 412: "PreconditionFailed"}[st]
		if code == "" {
			code = "Unknown"
		}
		s3Error(w, st, code, key)
	}
}

// awsUnchunk removes the "aws-chunked" framing (`<hex size>;chunk-signature=…\r\n<data>\r\n` … `0;chunk-signature=…`)
// minio's client puts around the payload of a signed upload over plain HTTP
func awsUnchunk(r *http.Request, b []byte) []byte {
	if !strings.HasPrefix(r.Header.Get("X-Amz-Content-Sha256"), "STREAMING-") {
		return b
	}
	var out []byte
	for len(b) > 0 {
		i := bytes.Index(b, []byte("\r\n"))
		if i < 0 {
			break
		}
		head := string(b[:i])
		if j := strings.IndexByte(head, ';'); j >= 0 {
			head = head[:j]
		}
		n, err := strconv.ParseInt(head, 16, 64)
		if err != nil || int(n) > len(b)-i-2 {
			break
		}
		out = append(out, b[i+2:i+2+int(n)]...)
		b = b[i+2+int(n):]
		if len(b) >= 2 {
			b = b[2:]
		}
		if n == 0 {
			break
		}
	}
	return out
}

func (f *fakeS3) put(bucket, key string, b []byte) {
	f.mu.Lock()
	f.objects[bucket+"/"+key] = b
	f.mu.Unlock()
}

func (f *fakeS3) storeURL(bucket, prefix string) *url.URL {
	u, _ := url.Parse("s3+" + f.srv.URL + "/" + bucket)
	if prefix != "" {
		u.Path += "/" + strings.TrimSuffix(prefix, "/")
	}
	return u
}

func (f *fakeS3) chunkStore(bucket, prefix string, opt desync.StoreOptions) (desync.S3Store, error) {
	return desync.NewS3Store(f.storeURL(bucket, prefix), credentials.NewStaticV4("key", "secret", ""), "us-east-1", opt, minio.BucketLookupPath)
}

func (f *fakeS3) indexStore(bucket, prefix string, opt desync.StoreOptions) (desync.S3IndexStore, error) {
	return desync.NewS3IndexStore(f.storeURL(bucket, prefix), credentials.NewStaticV4("key", "secret", ""), "us-east-1", opt, minio.BucketLookupPath)
}
