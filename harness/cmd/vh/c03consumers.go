package main

// C03, second clause: consumers of a store that holds a damaged chunk — extract, the seekable
// reader behind `cat` (also retried after an error), the index mount's read path, untar from an
// index, and a de-duplication queue under concurrent load — fail rather than emit bytes that
// differ from the indexed blob, and never hand out a chunk that does not hash to the requested ID.

import (
	"bytes"
	"context"
	"fmt"
	"io"
	"math/rand"
	"os"
	"path/filepath"
	"strings"
	"sync"
	"time"

	"github.com/folbricht/desync"
)

// corruptStoreChunk damages the stored file of one chunk; returns a label
func corruptStoreChunk(rng *rand.Rand, dir string, id desync.ChunkID, comp bool, other []byte) string {
	sid := id.String()
	ext := ""
	if comp {
		ext = ".cacnk"
	}
	p := filepath.Join(dir, sid[:4], sid+ext)
	raw, err := os.ReadFile(p)
	if err != nil {
		return "unreadable"
	}
	kind := rng.Intn(6)
	switch kind {
	case 0: // bit flip
		if len(raw) > 0 {
			raw[rng.Intn(len(raw))] ^= 1 << uint(rng.Intn(8))
		}
	case 1: // truncated
		raw = raw[:len(raw)/2]
	case 2: // emptied
		raw = nil
	case 3: // garbage
		raw = randBytes(rng, 1+rng.Intn(64))
	case 4: // another valid chunk of the same store format
		raw = other
	default: // removed
		os.Remove(p)
		return "removed"
	}
	os.WriteFile(p, raw, 0644)
	return []string{"bitflip", "truncated", "emptied", "garbage", "other-chunk"}[kind]
}

type slowStore struct {
	desync.Store
	rng *rand.Rand
	mu  sync.Mutex
}

func (s *slowStore) GetChunk(id desync.ChunkID) (*desync.Chunk, error) {
	s.mu.Lock()
	d := time.Duration(s.rng.Intn(300)) * time.Microsecond
	s.mu.Unlock()
	time.Sleep(d)
	return s.Store.GetChunk(id)
}

func runC03Consumers(cfg Config, rep *Report, rng *rand.Rand) {
	monitor := func(what, caseLine, impl string) {
		rep.Disagree(Disagreement{Kind: "monitor", Case: clip(caseLine, 200000), Impl: clip(impl, 2000), What: what})
	}
	n := cfg.N(60, 1500)
	for it := 0; it < n; it++ {
		comp := rng.Intn(2) == 0
		p := chunkParams{64, 128, 256}
		// the blob: a small catar half of the time (so that untar from the index can run), else data
		var blob []byte
		isCatar := it%2 == 0
		if isCatar {
			recs := genRecords(rng, 1+rng.Intn(4), 12)
			h := tarRecs(recs)
			if h == "err" || h == "panic" {
				continue
			}
			blob = unhx(h)
		} else {
			blob, _ = genData(rng, p, 6000)
		}
		if len(blob) < 300 {
			blob = append(blob, randBytes(rng, 600)...)
			isCatar = false
		}
		dir := filepath.Join(cfg.Work, "cstore")
		os.RemoveAll(dir)
		os.MkdirAll(dir, 0755)
		st, err := desync.NewLocalStore(dir, desync.StoreOptions{Uncompressed: !comp})
		if err != nil {
			fatal(err)
		}
		ck, _ := desync.NewChunker(bytes.NewReader(blob), p.min, p.avg, p.max)
		idx, err := desync.ChunkStream(context.Background(), ck, st, 2)
		if err != nil || len(idx.Chunks) < 2 {
			continue
		}
		// a second valid chunk file to swap in
		otherChunk := desync.NewChunk(randBytes(rng, 100))
		st.StoreChunk(otherChunk)
		ocid := otherChunk.ID()
		oid := ocid.String()
		oext := ""
		if comp {
			oext = ".cacnk"
		}
		otherRaw, _ := os.ReadFile(filepath.Join(dir, oid[:4], oid+oext))
		victim := rng.Intn(len(idx.Chunks))
		vc := idx.Chunks[victim]
		kind := corruptStoreChunk(rng, dir, vc.ID, comp, otherRaw)
		caseLine := fmt.Sprintf("c03.consumers comp=%d catar=%v victim=%d kind=%s min=%d avg=%d max=%d blob=%s", b2i(comp), isCatar, victim, kind, p.min, p.avg, p.max, hx(blob))
		markCase(caseLine)
		rep.Count(caseLine, true, "consumers:"+kind)
		// is the victim's content still (accidentally) right? e.g. a flipped bit in zstd padding
		stillValid := false
		if c, err := st.GetChunk(vc.ID); err == nil {
			if d, err := c.Data(); err == nil && bytes.Equal(d, blob[vc.Start:vc.Start+vc.Size]) {
				stillValid = true
			}
		}

		// (1) extract
		out := filepath.Join(cfg.Work, "cout")
		os.Remove(out)
		res := guard(func() string {
			_, err := desync.AssembleFile(context.Background(), out, idx, st, nil, desync.AssembleOptions{N: 1 + rng.Intn(4)})
			if err != nil {
				return "err"
			}
			return "ok"
		})
		if res == "ok" {
			got, _ := os.ReadFile(out)
			if !bytes.Equal(got, blob) {
				monitor("extract from a store with a damaged chunk ("+kind+") reported success with output that differs from the blob", caseLine, res)
			}
		} else if res == "panic" {
			monitor("extract panicked on a damaged chunk ("+kind+")", caseLine, res)
		} else if stillValid {
			// fine either way
		}

		// (2) the seekable reader: random reads, and a retry after every error
		rs := desync.NewIndexReadSeeker(idx, st)
		readAt := func(r io.ReadSeeker, off int64, ln int) ([]byte, error) {
			if _, err := r.Seek(off, io.SeekStart); err != nil {
				return nil, err
			}
			b := make([]byte, ln)
			n, idle := 0, 0
			for n < ln {
				k, err := r.Read(b[n:])
				n += k
				if err == io.EOF {
					break
				}
				if err != nil {
					return b[:n], err
				}
				if k == 0 {
					if idle++; idle > 3 {
						return b[:n], fmt.Errorf("Read keeps returning 0 bytes and no error")
					}
				}
			}
			return b[:n], nil
		}
		checkRead := func(what string, off int64, b []byte, err error) {
			if int(off)+len(b) > len(blob) || !bytes.Equal(b, blob[off:int(off)+len(b)]) {
				monitor(fmt.Sprintf("%s returned bytes that differ from the blob at offset %d (%d bytes, err=%v) with a damaged chunk (%s)", what, off, len(b), err, kind), caseLine, "")
			}
			if err != nil && strings.Contains(err.Error(), "keeps returning 0 bytes") {
				monitor(fmt.Sprintf("%s: %v (offset %d) with a damaged chunk (%s)", what, err, off, kind), caseLine, "")
			}
		}
		if !returnsInTime(func() {
			for k := 0; k < 24; k++ {
				off := int64(rng.Intn(len(blob)))
				if k%3 == 0 { // inside or just before the victim
					off = int64(vc.Start) - int64(rng.Intn(80)) + int64(rng.Intn(int(vc.Size)))
					if off < 0 {
						off = 0
					}
				}
				ln := 1 + rng.Intn(400)
				b, err := readAt(rs, off, ln)
				checkRead("the seekable reader", off, b, err)
				if err != nil { // retry the same read, then one inside the damaged chunk
					b, err2 := readAt(rs, off, ln)
					checkRead("the seekable reader (retry after an error)", off, b, err2)
					o2 := int64(vc.Start) + int64(rng.Intn(int(vc.Size)))
					b, err3 := readAt(rs, o2, 1+rng.Intn(100))
					checkRead("the seekable reader (read inside the damaged chunk after an error)", o2, b, err3)
				}
			}
		}) {
			monitor("the seekable reader did not return within 20 s on a store with a damaged chunk ("+kind+")", caseLine, "")
			break
		}

		// (2b) the way `desync cat` consumes the reader: io.Copy (which uses WriteTo / ReadFrom when the types offer them)
		// and io.CopyN after a Seek: success must mean the exact bytes, up to the end of the blob
		if !returnsInTime(func() {
			for k := 0; k < 4; k++ {
				r := desync.NewIndexReadSeeker(idx, st)
				off := int64(0)
				if k > 0 {
					off = int64(rng.Intn(len(blob)))
					if k == 2 {
						off = int64(vc.Start)
					}
					if _, err := r.Seek(off, io.SeekStart); err != nil {
						continue
					}
				}
				var out bytes.Buffer
				var err error
				want := blob[off:]
				if k == 3 {
					ln := 1 + rng.Intn(len(blob)-int(off))
					want = blob[off : int(off)+ln]
					_, err = io.CopyN(&out, r, int64(ln))
				} else {
					_, err = io.Copy(&out, r)
				}
				if err == nil && !bytes.Equal(out.Bytes(), want) {
					monitor(fmt.Sprintf("copying from the seekable reader (offset %d) reported success with %d of %d bytes with a damaged chunk (%s)", off, out.Len(), len(want), kind), caseLine, "")
				}
				if err != nil && !bytes.HasPrefix(want, out.Bytes()) {
					monitor(fmt.Sprintf("copying from the seekable reader wrote bytes that differ from the blob before it failed (%s)", kind), caseLine, "")
				}
			}
		}) {
			monitor("copying from the seekable reader did not return within 20 s on a store with a damaged chunk ("+kind+")", caseLine, "")
			break
		}

		// (3) the index mount's read path
		if !returnsInTime(func() {
			h := desync.VerifNewIndexFileHandle(idx, st)
			for k := 0; k < 24; k++ {
				off := int64(rng.Intn(len(blob)))
				if k%3 == 0 {
					off = int64(vc.Start) - int64(rng.Intn(80)) + int64(rng.Intn(int(vc.Size)))
					if off < 0 {
						off = 0
					}
				}
				ln := 1 + rng.Intn(400)
				for try := 0; try < 2; try++ {
					b, ok := h.Read(make([]byte, ln), off)
					if !ok {
						continue
					}
					want := blob[off:]
					if len(want) > ln {
						want = want[:ln]
					}
					if !bytes.Equal(b, want) {
						monitor(fmt.Sprintf("the index mount's read at offset %d, size %d returned data that differs from the blob (try %d) with a damaged chunk (%s)", off, ln, try, kind), caseLine, "")
					}
				}
			}
		}) {
			monitor("the index mount's read path did not return within 20 s on a store with a damaged chunk ("+kind+")", caseLine, "")
			break
		}

		// (4) untar from the index
		if isCatar {
			wantRes, _ := untarNodes(blob)
			fs := &recFS{}
			got := guard(func() string {
				if err := desync.UnTarIndex(context.Background(), fs, idx, st, 1+rng.Intn(4), desync.NewProgressBar("")); err != nil {
					return "err"
				}
				return "ok " + strings.Join(fs.nodes, ";")
			})
			if strings.HasPrefix(got, "ok") && got != wantRes {
				monitor("untar from an index whose store holds a damaged chunk ("+kind+") reported success with a different tree", caseLine, clip(got, 500))
			}
			if got == "panic" {
				monitor("untar from an index panicked on a damaged chunk", caseLine, got)
			}
		}

		// (5) a de-duplication queue under concurrent load: every chunk handed out hashes to the requested ID
		if it%4 == 0 {
			q := desync.NewDedupQueue(&slowStore{Store: st, rng: rand.New(rand.NewSource(rng.Int63()))})
			ids := idx.Chunks
			var wg sync.WaitGroup
			var bad sync.Map
			for g := 0; g < 12; g++ {
				wg.Add(1)
				seed := rng.Int63()
				go func() {
					defer wg.Done()
					r := rand.New(rand.NewSource(seed))
					for k := 0; k < 60; k++ {
						c := ids[r.Intn(len(ids))]
						if r.Intn(2) == 0 && len(ids) > 3 {
							c = ids[r.Intn(3)] // contention on a few IDs
						}
						ch, err := q.GetChunk(c.ID)
						if err != nil {
							continue
						}
						if ch == nil {
							bad.Store("GetChunk returned neither a chunk nor an error", true)
							continue
						}
						d, err := ch.Data()
						if err != nil {
							continue
						}
						if desync.Digest.Sum(d) != c.ID {
							bad.Store(fmt.Sprintf("a request for %s through the de-duplication queue was answered with data hashing to %s", c.ID, desync.Digest.Sum(d)), true)
						}
					}
				}()
			}
			wg.Wait()
			bad.Range(func(k, v interface{}) bool {
				monitor(k.(string), caseLine, "")
				return true
			})
		}
	}
}

// returnsInTime runs f (panics recovered) and reports whether it came back within 20 s; a call
// that does not is abandoned (its goroutine keeps spinning, so the caller should stop the phase)
func returnsInTime(f func()) bool {
	done := make(chan struct{})
	go func() {
		defer close(done)
		defer func() { recover() }()
		f()
	}()
	select {
	case <-done:
		return true
	case <-time.After(20 * time.Second):
		return false
	}
}
