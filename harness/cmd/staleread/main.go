// Command staleread demonstrates (on the real WriteDedupQueue, no hooks needed) a read that STARTS AFTER a
// StoreChunk of the same chunk has returned nil and is nevertheless answered "missing": it joins an earlier
// GetChunk request that went upstream before the write (DedupQueue.GetChunk hands the result of a request in
// flight to everyone who arrives before the leader's delete).  Informational for C12: the property as worded
// allows it (the result is that of an upstream request in flight during the caller's call, and the read does
// not overlap the write), but it is not what a caller of a store expects after a successful write.
// Exit status 1 when the stale answer is observed.
package main

import (
	"fmt"
	"os"
	"sync"
	"time"

	"github.com/folbricht/desync"
)

type slowStore struct {
	mu      sync.Mutex
	chunks  map[desync.ChunkID][]byte
	entered chan struct{}
	gate    chan struct{}
	first   bool
}

func (s *slowStore) GetChunk(id desync.ChunkID) (*desync.Chunk, error) {
	s.mu.Lock()
	b, ok := s.chunks[id]
	slow := !s.first
	s.first = true
	s.mu.Unlock()
	if slow { // the first read has looked (the chunk is not there) and is slow to answer
		s.entered <- struct{}{}
		<-s.gate
	}
	if !ok {
		return nil, desync.ChunkMissing{ID: id}
	}
	return desync.NewChunkWithID(id, b, false)
}
func (s *slowStore) HasChunk(id desync.ChunkID) (bool, error) { return false, nil }
func (s *slowStore) StoreChunk(c *desync.Chunk) error {
	b, _ := c.Data()
	s.mu.Lock()
	s.chunks[c.ID()] = b
	s.mu.Unlock()
	return nil
}
func (s *slowStore) Close() error   { return nil }
func (s *slowStore) String() string { return "slow" }

func main() {
	st := &slowStore{chunks: map[desync.ChunkID][]byte{}, entered: make(chan struct{}), gate: make(chan struct{})}
	q := desync.NewWriteDedupQueue(st)
	chunk := desync.NewChunk([]byte("some chunk data"))
	id := chunk.ID()
	r1 := make(chan error, 1)
	go func() { _, err := q.GetChunk(id); r1 <- err }() // early read: upstream, answer pending ("missing")
	<-st.entered
	if err := q.StoreChunk(chunk); err != nil { // the write completes
		fmt.Println("store:", err)
		os.Exit(2)
	}
	r3 := make(chan error, 1)
	go func() { _, err := q.GetChunk(id); r3 <- err }() // a read that starts after the write returned
	time.Sleep(200 * time.Millisecond)                  // it joins the early read's request; now let that one answer
	close(st.gate)
	err3 := <-r3
	<-r1
	_, direct := st.GetChunk(id)
	fmt.Printf("GetChunk started after StoreChunk returned nil: err=%v; the store itself: err=%v\n", err3, direct)
	if err3 != nil {
		os.Exit(1)
	}
}
