// Reproduction: `desync tar --one-file-system` over a tree that contains a directory the caller may list but not
// search (mode 0444, caller not root): filepath.Walk calls the callback of LocalFS.startSerializer with info == nil
// for every entry of that directory, and the callback calls info.IsDir() when --one-file-system is set: the process dies of a
// nil pointer dereference instead of returning the lstat error (which is what happens without the option).
// Run as root; build to a place uid 65534 can execute:  go build -o /tmp/repro_ofs ./cmd/repro_onefs_nilinfo && /tmp/repro_ofs
package main

import (
	"bytes"
	"context"
	"fmt"
	"os"
	"os/exec"
	"path/filepath"
	"syscall"

	"github.com/folbricht/desync"
)

func main() {
	if len(os.Args) > 1 && os.Args[1] == "child" {
		ofs := os.Args[3] == "1"
		var buf bytes.Buffer
		err := desync.Tar(context.Background(), &buf, desync.NewLocalFS(os.Args[2], desync.LocalFSOptions{OneFileSystem: ofs}))
		fmt.Printf("one-file-system=%v: Tar returned err=%v (%d bytes)\n", ofs, err, buf.Len())
		return
	}
	top, _ := os.MkdirTemp("/tmp", "ofsrepro")
	defer os.RemoveAll(top)
	os.Chmod(top, 0755)
	src := filepath.Join(top, "src")
	os.MkdirAll(filepath.Join(src, "locked"), 0755)
	os.WriteFile(filepath.Join(src, "locked", "f"), []byte("x"), 0644)
	os.Chmod(filepath.Join(src, "locked"), 0444) // readable (readdir works), not searchable (lstat of entries fails)
	for _, ofs := range []string{"0", "1"} {
		cmd := exec.Command(os.Args[0], "child", src, ofs)
		cmd.SysProcAttr = &syscall.SysProcAttr{Credential: &syscall.Credential{Uid: 65534, Gid: 65534}}
		out, err := cmd.CombinedOutput()
		fmt.Printf("%s(exit: %v)\n", out, err)
	}
	os.Chmod(filepath.Join(src, "locked"), 0755)
}
