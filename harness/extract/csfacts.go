package main

import (
	"fmt"
	"go/ast"
	"go/token"
	"sort"
	"strings"
)

// index.go ChunkStream (C02/C06): what a worker records and stores for one job, how the feeder numbers the
// jobs, and how the index is put together from the results.  Locals that are defined once inside the worker's
// loop body (`chunk := NewChunk(c.b)`, `idxChunk := IndexChunk{…}`) are looked through, so that the facts are
// about WHAT is recorded and stored, not about how the statements are spelled.

// substString prints an expression with identifiers replaced by their (single) definitions
func substString(e ast.Expr, defs map[string]ast.Expr, depth int) string {
	if depth > 6 {
		return exprString(e)
	}
	switch t := e.(type) {
	case *ast.Ident:
		if d, ok := defs[t.Name]; ok {
			return substString(d, defs, depth+1)
		}
		return t.Name
	case *ast.SelectorExpr:
		return substString(t.X, defs, depth) + "." + t.Sel.Name
	case *ast.CallExpr:
		args := []string{}
		for _, a := range t.Args {
			args = append(args, substString(a, defs, depth))
		}
		return substString(t.Fun, defs, depth) + "(" + strings.Join(args, ",") + ")"
	case *ast.ParenExpr:
		return substString(t.X, defs, depth)
	case *ast.CompositeLit:
		kv := []string{}
		for _, el := range t.Elts {
			if p, ok := el.(*ast.KeyValueExpr); ok {
				kv = append(kv, exprString(p.Key)+":"+substString(p.Value, defs, depth))
			} else {
				kv = append(kv, substString(el, defs, depth))
			}
		}
		sort.Strings(kv)
		return typeName(t.Type) + "{" + strings.Join(kv, ",") + "}"
	}
	return exprString(e)
}

func (c *ctx) chunkStreamFacts() {
	c.lean.WriteString("\n/-! index.go ChunkStream: what is recorded, stored and assembled (C02, C06) -/\n")
	fd := c.funcDecl(c.files, "", "ChunkStream")
	recordKey, recordRow, storeArg, resultsAssign, job, nextCall, finalMake, finalLoop, indexChunks := "", "", "", "", "", "", "", "", ""
	recordUncond, storeErrReturned, numAfterSend, numStartsAtZero, noSkips := false, false, false, false, true
	counterName := ""
	if fd != nil {
		// recordResult := func(num int, r IndexChunk) { … results[num] = r }
		walk(fd.Body, func(n ast.Node) bool {
			as, ok := n.(*ast.AssignStmt)
			if !ok || len(as.Lhs) != 1 || len(as.Rhs) != 1 || exprString(as.Lhs[0]) != "recordResult" {
				return true
			}
			lit, ok := as.Rhs[0].(*ast.FuncLit)
			if !ok {
				return true
			}
			params := []string{}
			for _, f := range lit.Type.Params.List {
				for _, nm := range f.Names {
					params = append(params, nm.Name)
				}
			}
			walk(lit.Body, func(m ast.Node) bool {
				if a, ok := m.(*ast.AssignStmt); ok && len(a.Lhs) == 1 && len(a.Rhs) == 1 && a.Tok == token.ASSIGN {
					if ix, ok := a.Lhs[0].(*ast.IndexExpr); ok && len(params) == 2 &&
						exprString(ix.Index) == params[0] && exprString(a.Rhs[0]) == params[1] {
						resultsAssign = exprString(ix.X) + "[key]=row"
					}
				}
				return true
			})
			return false
		})
		// the worker: the `for c := range in` loop inside a function literal
		walk(fd.Body, func(n ast.Node) bool {
			rs, ok := n.(*ast.RangeStmt)
			if !ok || exprString(rs.X) != "in" {
				return true
			}
			defs := map[string]ast.Expr{}
			count := map[string]int{}
			// the loop variable is called `j` in the facts, whatever its name in the source
			if id, ok := rs.Key.(*ast.Ident); ok && rs.Value == nil {
				defs[id.Name] = &ast.Ident{Name: "j"}
				count[id.Name] = 1
			}
			for _, st := range rs.Body.List {
				if as, ok := st.(*ast.AssignStmt); ok && as.Tok == token.DEFINE && len(as.Lhs) == len(as.Rhs) {
					for i, l := range as.Lhs {
						if id, ok := l.(*ast.Ident); ok {
							defs[id.Name] = as.Rhs[i]
							count[id.Name]++
						}
					}
				}
			}
			for k, v := range count {
				if v != 1 {
					delete(defs, k)
				}
			}
			records := 0
			for _, st := range rs.Body.List {
				switch t := st.(type) {
				case *ast.ExprStmt:
					if call, ok := t.X.(*ast.CallExpr); ok && exprString(call.Fun) == "recordResult" && len(call.Args) == 2 {
						records++
						recordKey = substString(call.Args[0], defs, 0)
						recordRow = substString(call.Args[1], defs, 0)
					}
				case *ast.IfStmt:
					if as, ok := t.Init.(*ast.AssignStmt); ok && len(as.Rhs) == 1 {
						if call, ok := as.Rhs[0].(*ast.CallExpr); ok && shortCall(call) == "StoreChunk" && len(call.Args) == 1 {
							storeArg = substString(call.Args[0], defs, 0)
							storeErrReturned = exprString(t.Cond) == "err!=nil" && returnsErr(t.Body)
						}
					}
				}
			}
			recordUncond = records == 1
			// nothing in the body may skip the rest of an iteration
			walk(rs.Body, func(m ast.Node) bool {
				if b, ok := m.(*ast.BranchStmt); ok && (b.Tok == token.CONTINUE || b.Tok == token.GOTO || b.Tok == token.BREAK) {
					noSkips = false
				}
				return true
			})
			return false
		})
		// the feeder: `start, b, err := c.Next()`, the job literal, `num++` after the select
		walk(fd.Body, func(n ast.Node) bool {
			fs, ok := n.(*ast.ForStmt)
			if !ok || fs.Cond != nil || fs.Init != nil {
				return true
			}
			sawSelect := false
			// names are positional in the facts: $1,$2,$3 = the results of the chunker's Next(), $n = the counter that is
			// incremented after the send, `chunker` = the receiver of Next()
			names := map[string]ast.Expr{}
			var sendVal ast.Expr
			for _, st := range fs.Body.List {
				switch t := st.(type) {
				case *ast.AssignStmt:
					if len(t.Rhs) == 1 {
						if call, ok := t.Rhs[0].(*ast.CallExpr); ok && shortCall(call) == "Next" {
							for i, x := range t.Lhs {
								if id, ok := x.(*ast.Ident); ok {
									names[id.Name] = &ast.Ident{Name: fmt.Sprintf("$%d", i+1)}
								}
							}
							nextCall = fmt.Sprintf("%d results:=chunker.Next()", len(t.Lhs))
							if sel, ok := call.Fun.(*ast.SelectorExpr); ok {
								if id, ok := sel.X.(*ast.Ident); !ok || !isParam(fd, id.Name) {
									nextCall = "?"
								}
							}
						}
					}
				case *ast.SelectStmt:
					sawSelect = true
					for _, cl := range t.Body.List {
						cc := cl.(*ast.CommClause)
						if send, ok := cc.Comm.(*ast.SendStmt); ok {
							sendVal = send.Value
						}
					}
				case *ast.IncDecStmt:
					if id, ok := t.X.(*ast.Ident); ok && t.Tok == token.INC && sawSelect {
						numAfterSend = true
						counterName = id.Name
						names[id.Name] = &ast.Ident{Name: "$n"}
					}
				}
			}
			if sendVal != nil {
				job = substString(sendVal, names, 0)
			}
			return true
		})
		walk(fd.Body, func(n ast.Node) bool {
			if ds, ok := n.(*ast.DeclStmt); ok {
				if gd, ok := ds.Decl.(*ast.GenDecl); ok {
					for _, sp := range gd.Specs {
						if vs, ok := sp.(*ast.ValueSpec); ok && len(vs.Names) == 1 && vs.Names[0].Name == counterName && counterName != "" && len(vs.Values) == 0 {
							numStartsAtZero = true
						}
					}
				}
			}
			// chunks := make([]IndexChunk, len(results))
			if as, ok := n.(*ast.AssignStmt); ok && len(as.Lhs) == 1 && len(as.Rhs) == 1 && exprString(as.Lhs[0]) == "chunks" {
				if call, ok := as.Rhs[0].(*ast.CallExpr); ok && exprString(call.Fun) == "make" {
					finalMake = exprString(call)
				}
			}
			// for i := 0; i < len(results); i++ { chunks[i] = results[i] }   or   for i := range chunks { chunks[i] = results[i] }
			// (chunks has len(results) elements): both are "every k below len(results): chunks[k] = results[k]"
			copyBody := func(body *ast.BlockStmt, iv string) (dst, src string, ok bool) {
				if len(body.List) != 1 {
					return "", "", false
				}
				as, isAs := body.List[0].(*ast.AssignStmt)
				if !isAs || len(as.Lhs) != 1 || len(as.Rhs) != 1 {
					return "", "", false
				}
				l, lok := as.Lhs[0].(*ast.IndexExpr)
				r, rok := as.Rhs[0].(*ast.IndexExpr)
				if !lok || !rok || exprString(l.Index) != iv || exprString(r.Index) != iv {
					return "", "", false
				}
				return exprString(l.X), exprString(r.X), true
			}
			if fs, ok := n.(*ast.ForStmt); ok && fs.Cond != nil && fs.Init != nil && fs.Post != nil {
				if init, ok := fs.Init.(*ast.AssignStmt); ok && len(init.Lhs) == 1 && exprString(init.Rhs[0]) == "0" {
					iv := exprString(init.Lhs[0])
					if dst, src, ok := copyBody(fs.Body, iv); ok && exprString(fs.Cond) == iv+"<len("+src+")" {
						if inc, ok := fs.Post.(*ast.IncDecStmt); ok && inc.Tok == token.INC && exprString(inc.X) == iv {
							finalLoop = "every k<len(" + src + "): " + dst + "[k]=" + src + "[k]"
						}
					}
				}
			}
			if rs, ok := n.(*ast.RangeStmt); ok && rs.Value == nil && rs.Key != nil {
				iv := exprString(rs.Key)
				if dst, src, ok := copyBody(rs.Body, iv); ok && exprString(rs.X) == dst && finalMake == "make([]IndexChunk,len("+src+"))" {
					finalLoop = "every k<len(" + src + "): " + dst + "[k]=" + src + "[k]"
				}
			}
			if kv, ok := n.(*ast.KeyValueExpr); ok && exprString(kv.Key) == "Chunks" {
				indexChunks = exprString(kv.Value)
			}
			return true
		})
	}
	found := fd != nil && recordKey != "" && storeArg != "" && job != ""
	c.site("chunkstream", found)
	fmt.Fprintf(&c.lean, "/-- the worker calls `recordResult(%s, %s)` exactly once per job, at the top level of its loop body, and nothing in the body skips an iteration -/\n", recordKey, recordRow)
	fmt.Fprintf(&c.lean, "def chunkStreamRecordKey : String := %q\ndef chunkStreamRecordRow : String := %q\ndef chunkStreamRecordOncePerJob : Bool := %v\n",
		recordKey, recordRow, recordUncond && noSkips)
	fmt.Fprintf(&c.lean, "/-- `recordResult` assigns `%s` -/\ndef chunkStreamResultsAssign : String := %q\n", resultsAssign, resultsAssign)
	fmt.Fprintf(&c.lean, "/-- the worker stores `%s` and returns the error of that call -/\ndef chunkStreamStoreArg : String := %q\ndef chunkStreamStoreErrReturned : Bool := %v\n",
		storeArg, storeArg, storeErrReturned)
	fmt.Fprintf(&c.lean, "/-- the feeder: `%s`, sends `%s`, `num` starts at 0 and is incremented after the send -/\n", nextCall, job)
	fmt.Fprintf(&c.lean, "def chunkStreamNext : String := %q\ndef chunkStreamJob : String := %q\ndef chunkStreamNumbering : Bool := %v\n",
		nextCall, job, numAfterSend && numStartsAtZero)
	fmt.Fprintf(&c.lean, "/-- the index is assembled by `%s`, `%s`, `Chunks: %s` -/\ndef chunkStreamAssemble : List String := [%s]\n",
		finalMake, finalLoop, indexChunks, quoteList([]string{finalMake, finalLoop, indexChunks}))
	c.facts["chunkStream"] = map[string]any{"recordKey": recordKey, "recordRow": recordRow, "storeArg": storeArg, "job": job,
		"next": nextCall, "assemble": []string{finalMake, finalLoop, indexChunks}}
}

// isParam: name is a parameter of fd
func isParam(fd *ast.FuncDecl, name string) bool {
	for _, f := range fd.Type.Params.List {
		for _, n := range f.Names {
			if n.Name == name {
				return true
			}
		}
	}
	return false
}
