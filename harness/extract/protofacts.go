package main

// Facts about the casync protocol code (protocol.go, protocolserver.go, remotessh.go) that the session model
// lean/Desync/Model/ProtoSession.lean assumes: the order of the checks in RecvHello, the two goroutines of Initialize
// and the order in which their errors are looked at, the arms of the `switch m.Type` in Serve and in RequestChunk with
// the way each ends, the guard dominating `m.Body[8:40]` / `m.Body[40:]`, what happens to the error of GetChunk, the
// arguments of SendProtocolChunk and of NewChunkFromStorage, the buffer layout of the Send* functions, the flags.
//
// Everything is normalised by role, not by spelling: local variables are named after what they were assigned from,
// constant expressions (literals, named constants) are evaluated unless they are CaProtocol* names, and a decision on the
// GetChunk error is read off by running the statements for each case, so that renamed locals, named constants and
// inverted conditions with swapped branches leave the facts as they are.

import (
	"fmt"
	"go/ast"
	"go/token"
	"sort"
	"strings"
)

// pnorm prints an expression with locals renamed by role and constants evaluated
func (c *ctx) pnorm(e ast.Expr, ren map[string]string) string {
	if e == nil {
		return ""
	}
	if id, ok := e.(*ast.Ident); ok {
		if r, ok := ren[id.Name]; ok {
			return r
		}
		if strings.HasPrefix(id.Name, "CaProtocol") {
			return id.Name
		}
	}
	if v, ok := c.evalConst(e); ok {
		return v.String()
	}
	switch t := e.(type) {
	case *ast.Ident:
		return t.Name
	case *ast.ParenExpr:
		return c.pnorm(t.X, ren)
	case *ast.SelectorExpr:
		x := c.pnorm(t.X, ren)
		if x == "binary.LittleEndian" || x == "s.p" || x == "s" || x == "p" {
			return t.Sel.Name // receivers and the byte order do not matter
		}
		return x + "." + t.Sel.Name
	case *ast.CallExpr:
		var args []string
		for _, a := range t.Args {
			args = append(args, c.pnorm(a, ren))
		}
		fn := c.pnorm(t.Fun, ren)
		if (fn == "uint64" || fn == "int" || fn == "int64") && len(args) == 1 {
			return args[0]
		}
		return fn + "(" + strings.Join(args, ",") + ")"
	case *ast.BinaryExpr:
		return c.pnorm(t.X, ren) + t.Op.String() + c.pnorm(t.Y, ren)
	case *ast.UnaryExpr:
		return t.Op.String() + c.pnorm(t.X, ren)
	case *ast.SliceExpr:
		return c.pnorm(t.X, ren) + "[" + c.pnorm(t.Low, ren) + ":" + c.pnorm(t.High, ren) + "]"
	case *ast.CompositeLit:
		var el []string
		for _, x := range t.Elts {
			el = append(el, c.pnorm(x, ren))
		}
		return typeNameDeep(t.Type) + "{" + strings.Join(el, ",") + "}"
	case *ast.KeyValueExpr:
		return c.pnorm(t.Key, ren) + ":" + c.pnorm(t.Value, ren)
	case *ast.TypeAssertExpr:
		return c.pnorm(t.X, ren) + ".(" + typeNameDeep(t.Type) + ")"
	}
	return exprString(e)
}

func typeNameDeep(e ast.Expr) string {
	if a, ok := e.(*ast.ArrayType); ok {
		return "[]" + typeNameDeep(a.Elt)
	}
	return typeName(e)
}

// the name of the idx-th variable assigned (or defined) from a call whose callee ends with suffix
func assignedFrom(n ast.Node, suffix string, idx int) string {
	out := ""
	walk(n, func(m ast.Node) bool {
		as, ok := m.(*ast.AssignStmt)
		if !ok || out != "" || len(as.Rhs) != 1 || idx >= len(as.Lhs) {
			return true
		}
		if call, ok := as.Rhs[0].(*ast.CallExpr); ok && strings.HasSuffix(exprString(call.Fun), suffix) {
			if id, ok := as.Lhs[idx].(*ast.Ident); ok {
				out = id.Name
			}
		}
		return true
	})
	return out
}

func retKind(r *ast.ReturnStmt) string {
	if len(r.Results) == 0 {
		return "return"
	}
	if id, ok := r.Results[len(r.Results)-1].(*ast.Ident); ok && id.Name == "nil" {
		return "return-nil"
	}
	return "return-err"
}

// how a statement list can be left: the set of {return-nil, return-err, continue, break, falls}
func exits(list []ast.Stmt, into map[string]bool) {
	falls := true
	for _, st := range list {
		switch t := st.(type) {
		case *ast.ReturnStmt:
			into[retKind(t)] = true
			falls = false
		case *ast.BranchStmt:
			into[t.Tok.String()] = true
			falls = false
		case *ast.IfStmt:
			sub := map[string]bool{}
			exits(t.Body.List, sub)
			elseFalls := true
			if t.Else != nil {
				es := map[string]bool{}
				switch e := t.Else.(type) {
				case *ast.BlockStmt:
					exits(e.List, es)
				case *ast.IfStmt:
					exits([]ast.Stmt{e}, es)
				}
				elseFalls = es["falls"]
				for k := range es {
					if k != "falls" {
						into[k] = true
					}
				}
			}
			for k := range sub {
				if k != "falls" {
					into[k] = true
				}
			}
			if !sub["falls"] && !elseFalls {
				falls = false
			}
		}
		if !falls {
			break
		}
	}
	if falls {
		into["falls"] = true
	}
}

func exitSet(list []ast.Stmt) string {
	m := map[string]bool{}
	exits(list, m)
	var l []string
	for k := range m {
		l = append(l, k)
	}
	sort.Strings(l)
	return strings.Join(l, ",")
}

// the `switch <x>.Type` of a function: its clauses
func typeSwitchOf(fd *ast.FuncDecl) *ast.SwitchStmt {
	var out *ast.SwitchStmt
	if fd == nil {
		return nil
	}
	walk(fd.Body, func(n ast.Node) bool {
		if sw, ok := n.(*ast.SwitchStmt); ok && out == nil && sw.Tag != nil && strings.HasSuffix(exprString(sw.Tag), ".Type") {
			out = sw
		}
		return true
	})
	return out
}

func clauseLabel(cc *ast.CaseClause) string {
	if cc.List == nil {
		return "default"
	}
	var l []string
	for _, e := range cc.List {
		l = append(l, exprString(e))
	}
	return strings.Join(l, "|")
}

func clauseOf(sw *ast.SwitchStmt, label string) *ast.CaseClause {
	if sw == nil {
		return nil
	}
	for _, cl := range sw.Body.List {
		if cc := cl.(*ast.CaseClause); clauseLabel(cc) == label {
			return cc
		}
	}
	return nil
}

// guardFact: within the statement list, a slice expression on `<msg>.Body` and the `if len(<msg>.Body) < N { return … }`
// that comes before the statement containing it in the same list
func (c *ctx) bodyGuard(list []ast.Stmt) (guard, lo, hi int64, hasHi, dominates bool) {
	guard, lo, hi = -1, -1, -1
	guardAt, sliceAt := -1, -1
	for i, st := range list {
		if ifs, ok := st.(*ast.IfStmt); ok && guardAt < 0 && ifs.Init == nil {
			if be, ok := ifs.Cond.(*ast.BinaryExpr); ok && be.Op == token.LSS && strings.HasPrefix(exprString(be.X), "len(") &&
				strings.HasSuffix(exprString(be.X), ".Body)") {
				m := map[string]bool{}
				exits(ifs.Body.List, m)
				if v, ok := c.evalConst(be.Y); ok && !m["falls"] && (m["return-err"] || m["return-nil"]) && len(m) == 1 {
					guard, guardAt = v.Int64(), i
				}
			}
		}
		if sliceAt < 0 {
			walk(st, func(n ast.Node) bool {
				se, ok := n.(*ast.SliceExpr)
				if !ok || sliceAt >= 0 || !strings.HasSuffix(exprString(se.X), ".Body") {
					return true
				}
				if v, ok := c.evalConst(se.Low); ok {
					lo = v.Int64()
				}
				if se.High != nil {
					hasHi = true
					if v, ok := c.evalConst(se.High); ok {
						hi = v.Int64()
					}
				}
				sliceAt = i
				return true
			})
		}
	}
	dominates = guardAt >= 0 && sliceAt > guardAt
	return
}

func (c *ctx) emitNat(site, name string, v int64, ok bool) {
	c.site(site, ok)
	if !ok || v < 0 {
		fmt.Fprintf(&c.lean, "-- SITE NOT FOUND: %s\ndef %s : Nat := 0\n", site, name)
		c.site(site, false)
		return
	}
	fmt.Fprintf(&c.lean, "def %s : Nat := %d\n", name, v)
	c.facts[name] = v
}

func (c *ctx) emitBool(name string, v bool) {
	fmt.Fprintf(&c.lean, "def %s : Bool := %v\n", name, v)
	c.facts[name] = v
}

// recognised calls of a statement list, in source order
func callsIn(n ast.Node, names ...string) []string {
	var out []string
	walk(n, func(m ast.Node) bool {
		if call, ok := m.(*ast.CallExpr); ok {
			fn := exprString(call.Fun)
			for _, nm := range names {
				if fn == nm || strings.HasSuffix(fn, "."+nm) {
					out = append(out, nm)
				}
			}
		}
		return true
	})
	return out
}

// the statement list that directly contains the statement in which `pred` holds, and the index of that statement
func enclosingList(root ast.Node, pred func(ast.Node) bool) ([]ast.Stmt, int) {
	var best []ast.Stmt
	bi := -1
	contains := func(st ast.Stmt) bool {
		f := false
		walk(st, func(n ast.Node) bool {
			if n != nil && pred(n) {
				f = true
			}
			return !f
		})
		return f
	}
	var visit func(list []ast.Stmt)
	visit = func(list []ast.Stmt) {
		for i, st := range list {
			if !contains(st) {
				continue
			}
			best, bi = list, i
			switch t := st.(type) {
			case *ast.IfStmt:
				// the condition / init of the if itself: this list is the one
				inInit := false
				if t.Init != nil {
					inInit = contains(t.Init)
				}
				if !inInit {
					visit(t.Body.List)
					if eb, ok := t.Else.(*ast.BlockStmt); ok {
						visit(eb.List)
					}
				}
			case *ast.BlockStmt:
				visit(t.List)
			case *ast.ForStmt:
				visit(t.Body.List)
			case *ast.SwitchStmt:
				for _, cl := range t.Body.List {
					visit(cl.(*ast.CaseClause).Body)
				}
			}
			return
		}
	}
	switch t := root.(type) {
	case *ast.BlockStmt:
		visit(t.List)
	case *ast.CaseClause:
		visit(t.Body)
	}
	return best, bi
}

// what happens to the error of GetChunk in the request arm: the statements of the `if err != nil` block are run once with
// "the error is a ChunkMissing" and once with "it is not"; events: SendMissing, return-err, return-nil, continue
func (c *ctx) getChunkErrDecision(arm *ast.CaseClause) []string {
	if arm == nil {
		return nil
	}
	// the if statement testing the GetChunk error: the first `if err != nil` after the GetChunk assignment
	var errBlock *ast.IfStmt
	seenGet := false
	for _, st := range arm.Body {
		if len(callsIn(st, "GetChunk")) > 0 {
			seenGet = true
			if ifs, ok := st.(*ast.IfStmt); ok { // `if chunk, err := …GetChunk(id); err != nil`
				errBlock = ifs
				break
			}
			continue
		}
		if ifs, ok := st.(*ast.IfStmt); ok && seenGet && errBlock == nil && strings.Contains(exprString(ifs.Cond), "!=nil") {
			errBlock = ifs
			break
		}
	}
	if errBlock == nil {
		return nil
	}
	var run func(list []ast.Stmt, missing bool, okVar map[string]bool) ([]string, bool)
	run = func(list []ast.Stmt, missing bool, okVar map[string]bool) ([]string, bool) {
		var ev []string
		for _, st := range list {
			switch t := st.(type) {
			case *ast.ReturnStmt:
				return append(ev, retKind(t)), true
			case *ast.BranchStmt:
				return append(ev, t.Tok.String()), true
			case *ast.AssignStmt:
				if len(callsIn(t, "SendMissing")) > 0 {
					ev = append(ev, "SendMissing")
				}
				for _, r := range t.Rhs {
					if ta, ok := r.(*ast.TypeAssertExpr); ok && typeName(ta.Type) == "ChunkMissing" && len(t.Lhs) == 2 {
						okVar[exprString(t.Lhs[1])] = true
					}
				}
			case *ast.ExprStmt:
				if len(callsIn(t, "SendMissing")) > 0 {
					ev = append(ev, "SendMissing")
				}
			case *ast.IfStmt:
				cond := t.Cond
				sendInInit := false
				if t.Init != nil {
					if as, ok := t.Init.(*ast.AssignStmt); ok {
						for _, r := range as.Rhs {
							if ta, ok := r.(*ast.TypeAssertExpr); ok && typeName(ta.Type) == "ChunkMissing" && len(as.Lhs) == 2 {
								okVar[exprString(as.Lhs[1])] = true
							}
						}
					}
					if len(callsIn(t.Init, "SendMissing")) > 0 {
						ev = append(ev, "SendMissing")
						sendInInit = true
					}
				}
				var val, known bool
				cs := exprString(cond)
				switch {
				case okVar[cs]:
					val, known = missing, true
				case strings.HasPrefix(cs, "!") && okVar[cs[1:]]:
					val, known = !missing, true
				case sendInInit || strings.Contains(cs, "!=nil"):
					// the error of a send: the success path is followed, the failure path is recorded
					sub, _ := run(t.Body.List, missing, okVar)
					ev = append(ev, "senderr:"+strings.Join(sub, ","))
					continue
				}
				if !known {
					return append(ev, "?"+cs), true
				}
				if val {
					sub, done := run(t.Body.List, missing, okVar)
					ev = append(ev, sub...)
					if done {
						return ev, true
					}
				} else if eb, ok := t.Else.(*ast.BlockStmt); ok {
					sub, done := run(eb.List, missing, okVar)
					ev = append(ev, sub...)
					if done {
						return ev, true
					}
				}
			}
		}
		return ev, false
	}
	var rows []string
	for _, missing := range []bool{true, false} {
		ev, done := run(errBlock.Body.List, missing, map[string]bool{})
		if !done {
			ev = append(ev, "falls")
		}
		tag := "other"
		if missing {
			tag = "missing"
		}
		rows = append(rows, tag+":"+strings.Join(ev, ","))
	}
	return rows
}

// the buffer layout of a Send* function: make, PutUint64 and copy calls, the message built
func (c *ctx) sendLayout(fd *ast.FuncDecl) []string {
	if fd == nil {
		return nil
	}
	ren := map[string]string{}
	if fd.Type.Params != nil {
		for _, f := range fd.Type.Params.List {
			for _, n := range f.Names {
				switch exprString(f.Type) {
				case "ChunkID":
					ren[n.Name] = "id"
				case "uint64":
					ren[n.Name] = "flags"
				case "[]byte":
					ren[n.Name] = "chunk"
				}
			}
		}
	}
	var out []string
	for _, st := range fd.Body.List {
		switch t := st.(type) {
		case *ast.IfStmt:
			if strings.Contains(exprString(t.Cond), "initialized") {
				out = append(out, "if:"+c.pnorm(t.Cond, ren)+"→"+exitSet(t.Body.List))
			}
		case *ast.AssignStmt:
			if len(t.Rhs) == 1 {
				if call, ok := t.Rhs[0].(*ast.CallExpr); ok && exprString(call.Fun) == "make" && len(call.Args) >= 2 {
					ren[exprString(t.Lhs[0])] = "b"
					out = append(out, "make:"+c.pnorm(call.Args[1], ren))
				}
				if cl, ok := t.Rhs[0].(*ast.CompositeLit); ok && typeName(cl.Type) == "Message" {
					out = append(out, c.pnorm(cl, ren))
				}
			}
		case *ast.ExprStmt:
			if call, ok := t.X.(*ast.CallExpr); ok {
				fn := exprString(call.Fun)
				switch {
				case strings.HasSuffix(fn, "PutUint64") && len(call.Args) == 2:
					out = append(out, "put:"+c.pnorm(call.Args[0], ren)+"="+c.pnorm(call.Args[1], ren))
				case fn == "copy" && len(call.Args) == 2:
					out = append(out, "copy:"+c.pnorm(call.Args[0], ren)+"="+c.pnorm(call.Args[1], ren))
				}
			}
		}
	}
	return out
}

func (c *ctx) protoFacts() {
	c.lean.WriteString("\n/-! the casync protocol as a whole session (protocol.go, protocolserver.go, remotessh.go): protofacts.go -/\n")

	// ---- RecvHello: the checks in source order
	fd := c.funcDecl(c.files, "Protocol", "RecvHello")
	var sh []string
	if fd != nil {
		ren := map[string]string{}
		if m := assignedFrom(fd.Body, "ReadMessage", 0); m != "" {
			ren[m] = "m"
		}
		for _, st := range fd.Body.List {
			switch t := st.(type) {
			case *ast.IfStmt:
				cond := c.pnorm(t.Cond, ren)
				if cond == "err!=nil" {
					continue
				}
				sh = append(sh, "if:"+cond+"→"+exitSet(t.Body.List))
			case *ast.ReturnStmt:
				if len(t.Results) > 0 {
					sh = append(sh, "return:"+c.pnorm(t.Results[0], ren))
				}
			}
		}
	}
	c.lean.WriteString("/-- `Protocol.RecvHello`: the checks on the message read, in order, and what is returned -/\n")
	c.emitShape("shape_proto_RecvHello", "protoRecvHello", sh, fd != nil)

	// ---- Initialize: two goroutines, then the send error before the receive error
	fd = c.funcDecl(c.files, "Protocol", "Initialize")
	sh = nil
	if fd != nil {
		ren := map[string]string{}
		for _, st := range fd.Body.List {
			switch t := st.(type) {
			case *ast.GoStmt:
				for _, nm := range callsIn(t, "SendHello", "RecvHello") {
					sh = append(sh, "go:"+nm)
					if nm == "SendHello" {
						ren[assignedFrom(t, "SendHello", 0)] = "sendErr"
					} else {
						ren[assignedFrom(t, "RecvHello", 1)] = "recvErr"
						ren[assignedFrom(t, "RecvHello", 0)] = "flags"
					}
				}
			case *ast.ExprStmt:
				if len(callsIn(t, "Wait")) > 0 {
					sh = append(sh, "Wait")
				}
			case *ast.IfStmt:
				sh = append(sh, "if:"+c.pnorm(t.Cond, ren)+"→"+exitSet(t.Body.List))
			case *ast.AssignStmt:
				if strings.HasSuffix(exprString(t.Lhs[0]), ".initialized") {
					sh = append(sh, "initialized="+exprString(t.Rhs[0]))
				}
			case *ast.ReturnStmt:
				if len(t.Results) > 0 {
					sh = append(sh, "return:"+c.pnorm(t.Results[0], ren))
				}
			}
		}
	}
	c.lean.WriteString("/-- `Protocol.Initialize`: the goroutines, the wait, the order in which the two errors are looked at -/\n")
	c.emitShape("shape_proto_Initialize", "protoInitialize", sh, fd != nil)

	// ---- Serve
	fd = c.funcDecl(c.files, "ProtocolServer", "Serve")
	sh = nil
	var loop *ast.ForStmt
	if fd != nil {
		loop = firstFor(fd)
		ren := map[string]string{}
		if f := assignedFrom(fd.Body, "Initialize", 0); f != "" {
			ren[f] = "flags"
		}
		for _, st := range fd.Body.List {
			if st == ast.Stmt(loop) {
				break
			}
			switch t := st.(type) {
			case *ast.AssignStmt:
				if call, ok := t.Rhs[0].(*ast.CallExpr); ok && strings.HasSuffix(exprString(call.Fun), "Initialize") {
					sh = append(sh, c.pnorm(call, ren))
				}
			case *ast.IfStmt:
				cond := c.pnorm(t.Cond, ren)
				if cond == "err!=nil" {
					continue
				}
				sh = append(sh, "if:"+cond+"→"+exitSet(t.Body.List))
			}
		}
	}
	c.lean.WriteString("/-- `ProtocolServer.Serve` before its loop: the handshake and the flags it insists on -/\n")
	c.emitShape("shape_proto_ServeInit", "protoServeInit", sh, fd != nil && loop != nil)

	sh = nil
	var sw *ast.SwitchStmt
	if loop != nil {
		for _, st := range loop.Body.List {
			switch t := st.(type) {
			case *ast.SelectStmt:
				for _, cl := range t.Body.List {
					cc := cl.(*ast.CommClause)
					if cc.Comm == nil {
						sh = append(sh, "select-default→"+exitSet(cc.Body))
					} else {
						sh = append(sh, "select:"+strings.TrimSpace(exprString(cc.Comm.(*ast.ExprStmt).X))+"→"+exitSet(cc.Body))
					}
				}
			case *ast.AssignStmt:
				if len(callsIn(t, "ReadMessage")) > 0 {
					sh = append(sh, "ReadMessage")
				}
			case *ast.IfStmt:
				if strings.Contains(exprString(t.Cond), "!=nil") {
					sh = append(sh, "if:err→"+exitSet(t.Body.List))
				}
			case *ast.SwitchStmt:
				sh = append(sh, "switch:"+lastSel(t.Tag))
			}
		}
		sw = typeSwitchOf(fd)
	}
	c.lean.WriteString("/-- the loop of `Serve`: the context is looked at first, then a message is read, then the switch on its type -/\n")
	c.emitShape("shape_proto_ServeLoop", "protoServeLoop", sh, loop != nil)

	sh = nil
	if sw != nil {
		for _, cl := range sw.Body.List {
			cc := cl.(*ast.CaseClause)
			sh = append(sh, clauseLabel(cc)+"→"+exitSet(cc.Body))
		}
	}
	c.lean.WriteString("/-- the arms of `switch m.Type` in `Serve` with the ways each can be left (falls = on to the next pass of the loop) -/\n")
	c.emitShape("shape_proto_ServeArms", "protoServeArms", sh, sw != nil)

	arm := clauseOf(sw, "CaProtocolRequest")
	sh = nil
	if arm != nil {
		for _, st := range arm.Body {
			sh = append(sh, callsIn(st, "ChunkIDFromSlice", "GetChunk", "SendMissing", "Data", "toStorage", "SendProtocolChunk", "ID")...)
		}
	}
	c.lean.WriteString("/-- the request arm of `Serve`: the calls in source order -/\n")
	c.emitShape("shape_proto_ServeRequestCalls", "protoServeRequestCalls", sh, arm != nil)

	var g, lo, hi int64 = -1, -1, -1
	dom := false
	if arm != nil {
		g, lo, hi, _, dom = c.bodyGuard(arm.Body)
	}
	c.lean.WriteString("/-- the request arm of `Serve`: `if len(m.Body) < guard { return … }` comes before `m.Body[lo:hi]` in the same statement list -/\n")
	c.emitNat("proto_ServeReqGuard", "protoServeReqGuard", g, arm != nil)
	c.emitNat("proto_ServeReqSliceLo", "protoServeReqSliceLo", lo, arm != nil)
	c.emitNat("proto_ServeReqSliceHi", "protoServeReqSliceHi", hi, arm != nil)
	c.emitBool("protoServeReqGuardDominates", dom)

	c.lean.WriteString("/-- the request arm of `Serve`: what is done with an error of `GetChunk`, for a `ChunkMissing` and for any other error (read off by running the statements) -/\n")
	dec := c.getChunkErrDecision(arm)
	c.emitShape("shape_proto_ServeGetChunkErr", "protoServeGetChunkErr", dec, dec != nil)

	sh = nil
	if arm != nil {
		ren := map[string]string{}
		if v := assignedFrom(arm, "GetChunk", 0); v != "" {
			ren[v] = "chunk"
		}
		if v := assignedFrom(arm, "ChunkIDFromSlice", 0); v != "" {
			ren[v] = "id"
		}
		plain := assignedFrom(arm, ".Data", 0)
		comp := assignedFrom(arm, "toStorage", 0)
		walk(arm, func(n ast.Node) bool {
			call, ok := n.(*ast.CallExpr)
			if !ok {
				return true
			}
			fn := exprString(call.Fun)
			switch {
			case strings.HasSuffix(fn, "SendProtocolChunk") && len(call.Args) == 3:
				third := c.pnorm(call.Args[2], ren)
				if third == comp && comp != "" {
					third = "compressed"
				}
				sh = append(sh, "SendProtocolChunk("+c.pnorm(call.Args[0], ren)+","+c.pnorm(call.Args[1], ren)+","+third+")")
			case strings.HasSuffix(fn, "toStorage") && len(call.Args) == 1:
				a := c.pnorm(call.Args[0], ren)
				if a == plain && plain != "" {
					a = "plain"
				}
				sh = append(sh, "compressed="+c.pnorm(call.Fun, ren)+"("+a+")")
			case strings.HasSuffix(fn, ".Data") && len(call.Args) == 0:
				sh = append(sh, "plain="+c.pnorm(call.Fun, ren)+"()")
			case strings.HasSuffix(fn, "SendMissing") && len(call.Args) == 1:
				sh = append(sh, "SendMissing("+c.pnorm(call.Args[0], ren)+")")
			case strings.HasSuffix(fn, "GetChunk") && len(call.Args) == 1:
				sh = append(sh, "chunk=GetChunk("+c.pnorm(call.Args[0], ren)+")")
			case strings.HasSuffix(fn, "ChunkIDFromSlice") && len(call.Args) == 1:
				sh = append(sh, "id=ChunkIDFromSlice("+c.pnorm(call.Args[0], map[string]string{})+")")
			}
			return true
		})
	}
	c.lean.WriteString("/-- the request arm of `Serve`: what each call is given (the reply is labelled with `chunk.ID()`) -/\n")
	c.emitShape("shape_proto_ServeRequestArgs", "protoServeRequestArgs", sh, arm != nil)

	// ---- RequestChunk
	fd = c.funcDecl(c.files, "Protocol", "RequestChunk")
	sh = nil
	sw = typeSwitchOf(fd)
	idp := ""
	if fd != nil {
		idp = paramOfType(fd, "ChunkID")
		ren := map[string]string{idp: "id"}
		for _, st := range fd.Body.List {
			switch t := st.(type) {
			case *ast.IfStmt:
				if strings.Contains(exprString(t.Cond), "initialized") {
					sh = append(sh, "if:"+c.pnorm(t.Cond, ren)+"→"+exitSet(t.Body.List))
				}
				if t.Init != nil {
					walk(t.Init, func(n ast.Node) bool {
						if call, ok := n.(*ast.CallExpr); ok && strings.HasSuffix(exprString(call.Fun), "SendProtocolRequest") {
							sh = append(sh, c.pnorm(call, ren)+"→"+exitSet(t.Body.List))
						}
						return true
					})
				}
			case *ast.AssignStmt:
				if len(callsIn(t, "ReadMessage")) > 0 {
					sh = append(sh, "ReadMessage")
				}
			case *ast.SwitchStmt:
				sh = append(sh, "switch:"+lastSel(t.Tag))
			}
		}
	}
	c.lean.WriteString("/-- `Protocol.RequestChunk`: the request is written, one message is read, the switch on its type -/\n")
	c.emitShape("shape_proto_RequestChunk", "protoRequestChunk", sh, fd != nil && sw != nil)

	sh = nil
	if sw != nil {
		for _, cl := range sw.Body.List {
			cc := cl.(*ast.CaseClause)
			var rets []string
			walk(cc, func(n ast.Node) bool {
				if r, ok := n.(*ast.ReturnStmt); ok && len(r.Results) == 2 {
					e := r.Results[1]
					s := "err"
					if cl, ok := e.(*ast.CompositeLit); ok {
						s = typeName(cl.Type)
					}
					if call, ok := r.Results[0].(*ast.CallExpr); ok {
						s = lastSel(call.Fun)
					} else if len(r.Results) == 1 {
						s = "?"
					}
					rets = append(rets, s)
				} else if r, ok := n.(*ast.ReturnStmt); ok && len(r.Results) == 1 {
					if call, ok := r.Results[0].(*ast.CallExpr); ok {
						rets = append(rets, lastSel(call.Fun))
					}
				}
				return true
			})
			sh = append(sh, clauseLabel(cc)+"→"+strings.Join(rets, ","))
		}
	}
	c.lean.WriteString("/-- the arms of `switch m.Type` in `RequestChunk` with what each returns -/\n")
	c.emitShape("shape_proto_RequestArms", "protoRequestArms", sh, sw != nil)

	carm := clauseOf(sw, "CaProtocolChunk")
	g, lo, hi = -1, -1, -1
	hasHi := false
	dom = false
	if carm != nil {
		g, lo, hi, hasHi, dom = c.bodyGuard(carm.Body)
	}
	c.lean.WriteString("/-- the chunk arm of `RequestChunk`: `if len(m.Body) < guard { return … }` comes before `m.Body[lo:]` -/\n")
	c.emitNat("proto_ClientChunkGuard", "protoClientChunkGuard", g, carm != nil)
	c.emitNat("proto_ClientChunkSliceLo", "protoClientChunkSliceLo", lo, carm != nil)
	c.emitBool("protoClientChunkSliceOpen", carm != nil && !hasHi)
	c.emitBool("protoClientChunkGuardDominates", dom)
	_ = hi

	sh = nil
	if carm != nil {
		ren := map[string]string{idp: "id"}
		walk(carm, func(n ast.Node) bool {
			if call, ok := n.(*ast.CallExpr); ok && exprString(call.Fun) == "NewChunkFromStorage" {
				for _, a := range call.Args {
					s := c.pnorm(a, ren)
					if se, ok := a.(*ast.SliceExpr); ok && strings.HasSuffix(exprString(se.X), ".Body") {
						s = "Body[" + c.pnorm(se.Low, ren) + ":" + c.pnorm(se.High, ren) + "]"
					}
					sh = append(sh, s)
				}
			}
			return true
		})
	}
	c.lean.WriteString("/-- the arguments of `NewChunkFromStorage` in `RequestChunk`: the REQUESTED id, the reply body behind its 40-byte header, the compression layer, verification on -/\n")
	c.emitShape("shape_proto_RequestCtorArgs", "protoRequestCtorArgs", sh, carm != nil)

	// ---- the Send* functions
	for _, nm := range []string{"SendHello", "SendProtocolRequest", "SendProtocolChunk", "SendMissing", "SendGoodbye"} {
		fd = c.funcDecl(c.files, "Protocol", nm)
		fmt.Fprintf(&c.lean, "/-- `Protocol.%s`: the buffer it builds -/\n", nm)
		c.emitShape("shape_proto_"+nm, "proto"+nm, c.sendLayout(fd), fd != nil)
	}

	// ---- ReadMessage
	fd = c.funcDecl(c.files, "Protocol", "ReadMessage")
	sh = nil
	if fd != nil {
		ren := map[string]string{}
		if v := assignedFrom(fd.Body, "ReadUint64", 0); v != "" {
			ren[v] = "len"
		}
		if v := assignedFrom(fd.Body, "ReadN", 0); v != "" {
			ren[v] = "b"
		}
		bodyVar := ""
		for _, st := range fd.Body.List {
			switch t := st.(type) {
			case *ast.AssignStmt:
				if len(t.Rhs) != 1 {
					continue
				}
				switch r := t.Rhs[0].(type) {
				case *ast.CallExpr:
					fn := exprString(r.Fun)
					switch {
					case strings.HasSuffix(fn, "ReadUint64"):
						sh = append(sh, "len=ReadUint64()")
					case strings.HasSuffix(fn, "ReadN") && len(r.Args) == 1:
						sh = append(sh, "b=ReadN("+c.pnorm(r.Args[0], ren)+")")
					case strings.HasSuffix(fn, "Uint64") && len(r.Args) == 1:
						ren[exprString(t.Lhs[0])] = "typ"
						sh = append(sh, "typ="+c.pnorm(r, ren))
					}
				case *ast.SliceExpr:
					if c.pnorm(r.X, ren) == "b" {
						sh = append(sh, "body="+c.pnorm(r, ren))
						bodyVar = exprString(t.Lhs[0])
					}
				}
			case *ast.IfStmt:
				cond := c.pnorm(t.Cond, ren)
				if cond == "err!=nil" {
					continue
				}
				sh = append(sh, "if:"+cond+"→"+exitSet(t.Body.List))
			case *ast.ReturnStmt:
				if cl, ok := t.Results[0].(*ast.CompositeLit); ok {
					r2 := map[string]string{}
					for k, v := range ren {
						r2[k] = v
					}
					if bodyVar != "" {
						r2[bodyVar] = "body"
					}
					sh = append(sh, "return:"+c.pnorm(cl, r2))
				}
			}
		}
	}
	c.lean.WriteString("/-- `Protocol.ReadMessage` -/\n")
	c.emitShape("shape_proto_ReadMessage", "protoReadMessage", sh, fd != nil)

	// ---- StartProtocol (remotessh.go): the handshake of the client
	fd = c.funcDecl(c.files, "", "StartProtocol")
	sh = nil
	if fd != nil {
		ren := map[string]string{}
		if f := assignedFrom(fd.Body, "Initialize", 0); f != "" {
			ren[f] = "flags"
		}
		for _, st := range fd.Body.List {
			switch t := st.(type) {
			case *ast.AssignStmt:
				if call, ok := t.Rhs[0].(*ast.CallExpr); ok && strings.HasSuffix(exprString(call.Fun), "Initialize") {
					sh = append(sh, c.pnorm(call, ren))
				}
			case *ast.IfStmt:
				if strings.Contains(exprString(t.Cond), "&") {
					sh = append(sh, "if:"+c.pnorm(t.Cond, ren)+"→"+exitSet(t.Body.List))
				}
			}
		}
	}
	c.lean.WriteString("/-- `StartProtocol`: the client's handshake and the flags it insists on -/\n")
	c.emitShape("shape_proto_StartProtocol", "protoStartProtocol", sh, fd != nil)

	// ---- RemoteSSH.GetChunk: the session goes back into the pool whatever the result.  Extracted by meaning
	// (sshpoolfacts.go: local names normalised, a deferred put-back counted where it runs, hooks skipped), so that a
	// behaviour-preserving rewrite gives the same shape
	fd = c.funcDecl(c.files, "RemoteSSH", "GetChunk")
	sh = nil
	if fd != nil {
		l, _ := c.sshpoolGetChunk(c.sshpoolFields())
		for _, o := range l {
			switch o {
			case "take":
				sh = append(sh, "take")
			case "request":
				sh = append(sh, "RequestChunk")
			case "put":
				sh = append(sh, "put-back")
			case "return-result":
				sh = append(sh, "return")
			default:
				sh = append(sh, "other")
			}
		}
	}
	c.lean.WriteString("/-- `RemoteSSH.GetChunk`: a failed request does not retire the session -/\n")
	c.emitShape("shape_proto_RemoteSSHGetChunk", "protoRemoteSSHGetChunk", sh, fd != nil)
}
