package main

import (
	"bytes"
	"fmt"
	"go/ast"
	"go/printer"
	"go/token"
	"sort"
	"strings"
)

// compress.go / compress_datadog.go: how the package-wide zstd encoder and decoder are configured and what Compress /
// Decompress do with them (C20, C16, C03).  desync puts no upper limit on chunk sizes, and chunk files written by casync
// (libzstd's streaming API) declare windows of up to 128 MiB: a decoder option that limits memory or window size makes
// valid chunks undecodable, and verify --repair then deletes them.
//
// Facts: which files define Compress/Decompress and under which build constraints; for the klauspost file the
// constructor calls of the shared objects with their first argument and their options (source text, sorted); the
// statements of Compress and Decompress; the functions that assign to the shared objects.
func (c *ctx) compressFacts() {
	c.lean.WriteString("\n/-! compress.go / compress_datadog.go: the zstd encoder and decoder (C20, C16, C03) -/\n")
	src := func(n ast.Node) string {
		var b bytes.Buffer
		printer.Fprint(&b, c.fset, n)
		return strings.Join(strings.Fields(b.String()), " ")
	}
	topFunc := func(f *ast.File, name string) *ast.FuncDecl {
		for _, d := range f.Decls {
			if fd, ok := d.(*ast.FuncDecl); ok && fd.Recv == nil && fd.Name.Name == name {
				return fd
			}
		}
		return nil
	}
	var files []string
	for n, f := range c.files {
		if topFunc(f, "Compress") != nil || topFunc(f, "Decompress") != nil {
			files = append(files, n)
		}
	}
	sort.Strings(files)
	fmt.Fprintf(&c.lean, "/-- the files that define `Compress` / `Decompress` -/\ndef compressFiles : List String := [%s]\n", quoteList(files))
	c.facts["compressFiles"] = files

	emit := func(name, doc string, l []string) {
		fmt.Fprintf(&c.lean, "/-- %s -/\ndef %s : List String := [%s]\n", doc, name, quoteList(l))
		c.facts[name] = l
	}
	for _, v := range []struct{ file, key string }{{"compress.go", "compressDefault"}, {"compress_datadog.go", "compressDatadog"}} {
		f := c.files[v.file]
		// build constraints: `// +build …` and `//go:build …` lines before the package clause
		var tags, imports, body, dbody []string
		if f != nil {
			for _, cg := range f.Comments {
				if cg.Pos() >= f.Package {
					break
				}
				for _, cm := range cg.List {
					t := strings.TrimSpace(strings.TrimPrefix(cm.Text, "//"))
					if strings.HasPrefix(t, "+build ") || strings.HasPrefix(t, "go:build ") {
						tags = append(tags, strings.Join(strings.Fields(t), " "))
					}
				}
			}
			for _, im := range f.Imports {
				imports = append(imports, strings.Trim(im.Path.Value, "\""))
			}
			if fd := topFunc(f, "Compress"); fd != nil {
				for _, st := range fd.Body.List {
					body = append(body, src(st))
				}
			}
			if fd := topFunc(f, "Decompress"); fd != nil {
				for _, st := range fd.Body.List {
					dbody = append(dbody, src(st))
				}
			}
		}
		sort.Strings(tags)
		sort.Strings(imports)
		c.site(v.key, f != nil && len(body) > 0 && len(dbody) > 0)
		emit(v.key+"BuildTags", "`"+v.file+"`: its build constraints", tags)
		emit(v.key+"Imports", "`"+v.file+"`: its imports", imports)
		emit(v.key+"CompressBody", "`"+v.file+"`: the statements of `Compress`", body)
		emit(v.key+"DecompressBody", "`"+v.file+"`: the statements of `Decompress`", dbody)
	}

	// the shared objects of the klauspost file: `encoder, _ = zstd.NewWriter(nil, …)`, `decoder, _ = zstd.NewReader(nil, …)`
	type ctor struct {
		found       bool
		fun, target string
		opts        []string
	}
	ctors := map[string]*ctor{"encoder": {}, "decoder": {}}
	var otherVars []string
	if f := c.files["compress.go"]; f != nil {
		for _, d := range f.Decls {
			gd, ok := d.(*ast.GenDecl)
			if !ok || gd.Tok != token.VAR {
				continue
			}
			for _, sp := range gd.Specs {
				vs, ok := sp.(*ast.ValueSpec)
				if !ok || len(vs.Names) == 0 {
					continue
				}
				ct := ctors[vs.Names[0].Name]
				if ct == nil || len(vs.Values) != 1 {
					otherVars = append(otherVars, src(vs))
					continue
				}
				call, ok := vs.Values[0].(*ast.CallExpr)
				if !ok {
					otherVars = append(otherVars, src(vs))
					continue
				}
				ct.found = true
				ct.fun = src(call.Fun)
				if len(call.Args) > 0 {
					ct.target = src(call.Args[0])
				}
				for _, a := range call.Args[min(1, len(call.Args)):] {
					ct.opts = append(ct.opts, src(a))
				}
				if call.Ellipsis != token.NoPos {
					ct.opts = append(ct.opts, "…")
				}
				sort.Strings(ct.opts)
			}
		}
	}
	for _, n := range []string{"encoder", "decoder"} {
		ct := ctors[n]
		N := strings.ToUpper(n[:1]) + n[1:]
		c.site("compress"+N+"Ctor", ct.found)
		fmt.Fprintf(&c.lean, "/-- the shared `%s`: constructor, first argument -/\ndef compress%sCtor : String := %q\ndef compress%sTarget : String := %q\n", n, N, ct.fun, N, ct.target)
		emit("compress"+N+"Options", "the options passed to the constructor of the shared `"+n+"` (source text, sorted)", ct.opts)
		c.facts["compress"+N+"Ctor"] = ct.fun
	}
	emit("compressOtherVars", "other package-level variables of compress.go", otherVars)

	// nobody else assigns to the shared objects (an `init` or a setter could replace them by differently configured ones)
	var assigners []string
	for fn, f := range c.files {
		for _, d := range f.Decls {
			fd, ok := d.(*ast.FuncDecl)
			if !ok || fd.Body == nil {
				continue
			}
			hit := false
			walk(fd.Body, func(n ast.Node) bool {
				if as, ok := n.(*ast.AssignStmt); ok && as.Tok == token.ASSIGN {
					for _, l := range as.Lhs {
						if id, ok := l.(*ast.Ident); ok && (id.Name == "encoder" || id.Name == "decoder") {
							hit = true
						}
					}
				}
				return true
			})
			if hit {
				assigners = append(assigners, fn+":"+fd.Name.Name)
			}
		}
	}
	sort.Strings(assigners)
	emit("compressSharedAssigners", "functions that assign to the package-level `encoder` / `decoder`", assigners)
}
