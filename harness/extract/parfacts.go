package main

import (
	"go/ast"
	"go/token"
	"strings"
)

// make.go: the decisions of the parallel chunker's synchronisation (C02)
func (c *ctx) parChunkFacts() {
	c.lean.WriteString("\n/-! make.go: pChunker.syncWith / start / IndexFromFile -/\n")
	var loopCond, matchCond, nullCond, nInit, nStep, numNull, skipCond, stopCond, finalCond ast.Expr
	counter := ""
	negated := false
	if fd := c.funcDecl(c.files, "pChunker", "syncWith"); fd != nil {
		walk(fd.Body, func(n ast.Node) bool {
			switch t := n.(type) {
			case *ast.ForStmt:
				if t.Cond != nil && loopCond == nil {
					loopCond = t.Cond
				}
			case *ast.IfStmt:
				cs := exprString(t.Cond)
				if strings.Contains(cs, "chunk.Size") && matchCond == nil {
					matchCond = t.Cond
				}
				if strings.Contains(cs, "prev.ID") && nullCond == nil {
					nullCond = t.Cond
				}
			case *ast.AssignStmt:
				// the counter of proven zero bytes: whatever it is called, it is the variable that is set to
				// `prev.Start + prev.Size - chunk.Start` and then grows by the null chunk's size
				if len(t.Lhs) == 1 && len(t.Rhs) == 1 {
					name := exprString(t.Lhs[0])
					rs := exprString(t.Rhs[0])
					if (t.Tok.String() == "=" || t.Tok.String() == ":=") && nInit == nil && strings.Contains(rs, "prev.Start") && strings.Contains(rs, "chunk.Start") {
						nInit = t.Rhs[0]
						counter = name
					}
					if t.Tok.String() == "+=" && nStep == nil && counter != "" && name == counter {
						nStep = t.Rhs[0]
					}
				}
			}
			return true
		})
	}
	// `if !(in a run of null chunks) { return false, 0 }` is the same decision as `if in a run { … }`
	if be, ok := nullCond.(*ast.BinaryExpr); ok && be.Op.String() == "||" {
		negated = true
	}
	if fd := c.funcDecl(c.files, "pChunker", "start"); fd != nil {
		walk(fd.Body, func(n ast.Node) bool {
			switch t := n.(type) {
			case *ast.AssignStmt:
				if len(t.Lhs) == 1 && exprString(t.Lhs[0]) == "numNullChunks" && len(t.Rhs) == 1 {
					numNull = t.Rhs[0]
				}
			case *ast.IfStmt:
				if strings.Contains(exprString(t.Cond), "c.next.active()") {
					skipCond = t.Cond
				}
			}
			return true
		})
	}
	if fd := c.funcDecl(c.files, "", "IndexFromFile"); fd != nil {
		walk(fd.Body, func(n ast.Node) bool {
			if t, ok := n.(*ast.IfStmt); ok {
				cs := exprString(t.Cond)
				if strings.Contains(cs, "index.Length()") && strings.Contains(cs, ">=") {
					stopCond = t.Cond
				}
				if strings.Contains(cs, "index.Length()") && strings.Contains(cs, "!=") {
					finalCond = t.Cond
				}
			}
			return true
		})
	}
	env := map[string]string{"chunk.Start": "cs", "chunk.Size": "cz", "c.sync.Start": "ss", "c.sync.Size": "sz",
		"prev.Start": "ps", "prev.Size": "pz", "c.sync.ID==c.nullChunk.ID": "syncNull", "prev.ID==c.nullChunk.ID": "prevNull",
		"uint64(len(c.nullChunk.Data))": "max", "len(c.nullChunk.Data)": "max", "zeroes": "zeroes", "int(zeroes)": "zeroes",
		"c.next!=nil": "hasNext", "c.next.active()": "nextActive", "len(c.next.results)": "nextLen",
		"index.Length()": "ilen", "uint64(index.Length())": "ilen", "size": "size"}
	if negated { // `if a != x || b != x { return }`: the positive condition by De Morgan
		nullCond = deMorgan(nullCond)
	}
	c.useLets(c.funcDecl(c.files, "pChunker", "syncWith"), c.funcDecl(c.files, "pChunker", "start"))
	defer func() { c.lets = nil }()
	c.emitExpr("par_loopCond", "parLoopCond", "(cs ss : Nat)", "Bool", loopCond, env, "false")
	c.emitExpr("par_matchCond", "parMatchCond", "(cs cz ss sz : Nat)", "Bool", matchCond, env, "false")
	c.emitExpr("par_nullCond", "parNullCond", "(syncNull prevNull : Bool)", "Bool", nullCond, env, "false")
	c.emitExpr("par_nInit", "parNInit", "(ps pz cs : Nat)", "Nat", nInit, env, "0")
	c.emitExpr("par_nStep", "parNStep", "(max : Nat)", "Nat", nStep, env, "0")
	c.emitExpr("par_numNull", "parNumNull", "(zeroes max : Nat)", "Nat", numNull, env, "0")
	c.emitExpr("par_skipCond", "parSkipCond", "(hasNext nextActive : Bool) (nextLen : Nat)", "Bool", skipCond, env, "false")
	c.emitExpr("par_stopCond", "parStopCond", "(ilen size : Nat)", "Bool", stopCond, env, "false")
	c.emitExpr("par_finalErrCond", "parFinalErrCond", "(ilen size : Nat)", "Bool", finalCond, env, "false")
	// worker layout in IndexFromFile: number of workers, spacing, start offsets, bucket capacity
	var nnE, spanE, startE, mChunksE, nnCond ast.Expr
	if fd := c.funcDecl(c.files, "", "IndexFromFile"); fd != nil {
		walk(fd.Body, func(n ast.Node) bool {
			switch t := n.(type) {
			case *ast.AssignStmt:
				if len(t.Lhs) == 1 && len(t.Rhs) == 1 && t.Tok.String() == ":=" {
					switch exprString(t.Lhs[0]) {
					case "nn":
						nnE = t.Rhs[0]
					case "span":
						spanE = t.Rhs[0]
					case "start":
						startE = t.Rhs[0]
					case "mChunks":
						mChunksE = t.Rhs[0]
					}
				}
			case *ast.IfStmt:
				if strings.Contains(exprString(t.Cond), "nn") && nnCond == nil {
					nnCond = t.Cond
				}
			}
			return true
		})
	}
	lenv := map[string]string{"size": "size", "max": "max", "min": "min", "uint64(n)": "n", "uint64(i)": "i", "span": "span",
		"start": "start", "nn": "nn"}
	c.emitExpr("par_nn", "parNN", "(size max : Nat)", "Nat", nnE, lenv, "0")
	c.emitExpr("par_nnCond", "parNNCond", "(nn n : Nat)", "Bool", nnCond, lenv, "false")
	c.emitExpr("par_span", "parSpan", "(size n : Nat)", "Nat", spanE, lenv, "0")
	c.emitExpr("par_start", "parStart", "(span i : Nat)", "Nat", startE, lenv, "0")
	c.emitExpr("par_mChunks", "parMChunks", "(size start min : Nat)", "Nat", mChunksE, lenv, "0")
	// order of operations in start()
	fd := c.funcDecl(c.files, "pChunker", "start")
	c.emitShape("shape_par_start", "parStartShape", c.condCallShape(fd, []string{"len(b)==0", "c.next!=nil", "inSync", "numNullChunks>0"},
		[][2]string{{"c.chunker.Next", "Next"}, {"c.next.syncWith", "syncWith"}, {"c.chunker.Advance", "Advance"}, {"c.stop", "stop"}, {"close", "close"}}), fd != nil)
}

// deMorgan returns the negation of a condition built from ||, && and comparisons, pushed down to the comparisons
func deMorgan(e ast.Expr) ast.Expr {
	switch t := e.(type) {
	case *ast.ParenExpr:
		return deMorgan(t.X)
	case *ast.UnaryExpr:
		if t.Op == token.NOT {
			return t.X
		}
	case *ast.BinaryExpr:
		switch t.Op {
		case token.LOR:
			return &ast.BinaryExpr{X: deMorgan(t.X), Op: token.LAND, Y: deMorgan(t.Y)}
		case token.LAND:
			return &ast.BinaryExpr{X: deMorgan(t.X), Op: token.LOR, Y: deMorgan(t.Y)}
		case token.NEQ:
			return &ast.BinaryExpr{X: t.X, Op: token.EQL, Y: t.Y}
		case token.EQL:
			return &ast.BinaryExpr{X: t.X, Op: token.NEQ, Y: t.Y}
		}
	}
	return &ast.UnaryExpr{Op: token.NOT, X: e}
}
