package main

import (
	"go/ast"
	"go/token"
	"sort"
	"strings"
)

// localfs_other.go, the reading side of LocalFS (C05 / C13): what `Next` puts into the File it returns and where it
// takes it from, the device-number split, the NoTime override, the guards of Readlink / Open / the xattr calls, and
// the callback `startSerializer` hands to `filepath.Walk` (which entries it sends, which it skips).
func (c *ctx) lfsReadFacts() {
	c.lean.WriteString("\n/-! localfs_other.go: LocalFS.Next and startSerializer (reading side; C05, C13) -/\n")
	file := c.files["localfs_other.go"]
	find := func(name string) *ast.FuncDecl {
		if file == nil {
			return nil
		}
		for _, d := range file.Decls {
			if fd, ok := d.(*ast.FuncDecl); ok && fd.Name.Name == name && fd.Recv != nil && len(fd.Recv.List) == 1 &&
				typeName(fd.Recv.List[0].Type) == "LocalFS" {
				return fd
			}
		}
		return nil
	}
	next := find("Next")

	// (1) the composite literal `&File{…}`: Field=expression, sorted by field
	var fields []string
	// (2) the device numbers
	var majorE, minorE ast.Expr
	// (3) NoTime: `mtime := <src>`, `if <cond> { mtime = <zero> }`
	noTime := []string{}
	// (4) guards: the conditions (innermost last) under which these calls are made
	guards := map[string][]string{}
	args := map[string]string{}
	xaStore := ""
	if next != nil {
		var stack []string
		var nodes []ast.Node
		ast.Inspect(next.Body, func(n ast.Node) bool {
			if n == nil {
				top := nodes[len(nodes)-1]
				nodes = nodes[:len(nodes)-1]
				switch top.(type) {
				case *ast.IfStmt, *ast.RangeStmt, *ast.ForStmt, *ast.CaseClause, *ast.FuncLit:
					stack = stack[:len(stack)-1]
				}
				return true
			}
			nodes = append(nodes, n)
			switch t := n.(type) {
			case *ast.IfStmt:
				stack = append(stack, "if "+exprString(t.Cond))
				if exprString(t.Cond) == "fs.opts.NoTime" && len(t.Body.List) == 1 && t.Else == nil {
					if as, ok := t.Body.List[0].(*ast.AssignStmt); ok && len(as.Lhs) == 1 && len(as.Rhs) == 1 {
						noTime = append(noTime, "if "+exprString(t.Cond)+" "+exprString(as.Lhs[0])+as.Tok.String()+exprString(as.Rhs[0]))
					}
				}
			case *ast.RangeStmt:
				stack = append(stack, "range "+exprString(t.X))
			case *ast.ForStmt:
				stack = append(stack, "for")
			case *ast.CaseClause:
				stack = append(stack, "case")
			case *ast.FuncLit:
				stack = append(stack, "func")
			case *ast.CompositeLit:
				if typeName(t.Type) == "File" {
					for _, el := range t.Elts {
						if kv, ok := el.(*ast.KeyValueExpr); ok {
							fields = append(fields, exprString(kv.Key)+"="+exprString(kv.Value))
						}
					}
				}
			case *ast.AssignStmt:
				for i, l := range t.Lhs {
					if i >= len(t.Rhs) {
						break
					}
					switch exprString(l) {
					case "major":
						majorE = t.Rhs[i]
					case "minor":
						minorE = t.Rhs[i]
					case "mtime":
						if t.Tok == token.DEFINE {
							noTime = append(noTime, "mtime:="+exprString(t.Rhs[i]))
						}
					}
					if ix, ok := l.(*ast.IndexExpr); ok && exprString(ix.X) == "xa" {
						xaStore = exprString(l) + "=" + exprString(t.Rhs[i])
					}
				}
			case *ast.CallExpr:
				fn := exprString(t.Fun)
				for _, want := range []string{"xattr.LList", "xattr.LGet", "os.Readlink", "os.Open"} {
					if fn == want {
						var g []string
						for _, s := range stack {
							if s != "case" && !strings.HasPrefix(s, "if err") { // `if err != nil { return }` never encloses a call of interest
								g = append(g, s)
							}
						}
						guards[want] = g
						as := []string{}
						for _, a := range t.Args {
							as = append(as, exprString(a))
						}
						args[want] = strings.Join(as, ",")
					}
				}
			}
			return true
		})
	}
	sort.Strings(fields)
	c.lean.WriteString("/-- `LocalFS.Next`: the fields of the `File` it returns and the expressions they are set from -/\n")
	c.emitShape("lfsread_file_literal", "lfsNextFile", fields, next != nil && len(fields) > 0)
	c.useLets(next)
	env := map[string]string{"sys.Rdev": "r"}
	c.lean.WriteString("-- device numbers out of `st_rdev`\n")
	c.emitExpr("lfsread_major", "lfsNextMajor", "(r : UInt64)", "UInt64", majorE, env, "0")
	c.emitExpr("lfsread_minor", "lfsNextMinor", "(r : UInt64)", "UInt64", minorE, env, "0")
	c.lets = nil
	c.lean.WriteString("/-- the modification time: the entry's, or the epoch under `NoTime` -/\n")
	c.emitShape("lfsread_notime", "lfsNextNoTime", noTime, len(noTime) > 0)
	// the guards, reduced to what they must mention (so that an equivalent spelling of a test stays the same fact): the link
	// target is read under a test of ModeSymlink, the content is opened under IsRegular, the xattr calls under no test
	// of the entry at all (every entry, links included), LGet once per listed key
	mention := func(g []string, atoms ...string) string {
		var out []string
		for _, s := range g {
			hit := ""
			for _, a := range atoms {
				if strings.Contains(s, a) {
					hit = a
				}
			}
			if hit != "" {
				out = append(out, hit)
			} else {
				out = append(out, s)
			}
		}
		return strings.Join(out, "; ")
	}
	var calls []string
	for _, k := range []string{"xattr.LList", "xattr.LGet", "os.Readlink", "os.Open"} {
		if _, ok := args[k]; ok {
			calls = append(calls, k+"("+args[k]+") under ["+mention(guards[k], "ModeSymlink", "IsRegular()")+"]")
		}
	}
	if xaStore != "" {
		calls = append(calls, xaStore)
	}
	c.lean.WriteString("/-- the calls that read xattrs, link target and content, with the conditions they are made under -/\n")
	c.emitShape("lfsread_calls", "lfsNextCalls", calls, next != nil && len(calls) > 0)

	// (5) startSerializer: the walk function and its root; the callback's one send (what it sends, under which conditions);
	// what the conditions around `return filepath.SkipDir` mention; that the skip comes before the send; the callback's
	// return values.  (filepath.Walk and filepath.WalkDir visit the same entries in the same order: both sort each
	// directory's names and follow no links; the facts do not tell them apart.)
	ser := find("startSerializer")
	var walkShape []string
	if ser != nil {
		ast.Inspect(ser.Body, func(n ast.Node) bool {
			call, ok := n.(*ast.CallExpr)
			if !ok || len(call.Args) != 2 {
				return true
			}
			if fn := exprString(call.Fun); fn != "filepath.Walk" && fn != "filepath.WalkDir" {
				return true
			}
			walkShape = append(walkShape, "walk:"+exprString(call.Args[0]))
			lit, ok := call.Args[1].(*ast.FuncLit)
			if !ok {
				walkShape = append(walkShape, "callback:"+exprString(call.Args[1]))
				return false
			}
			ps := []string{}
			for _, f := range lit.Type.Params.List {
				for _, nm := range f.Names {
					ps = append(ps, nm.Name)
				}
			}
			var conds []string
			var nodes []ast.Node
			sendPos, skipPos := token.NoPos, token.NoPos
			rets := map[string]bool{}
			ast.Inspect(lit.Body, func(m ast.Node) bool {
				if m == nil {
					top := nodes[len(nodes)-1]
					nodes = nodes[:len(nodes)-1]
					if _, ok := top.(*ast.IfStmt); ok {
						conds = conds[:len(conds)-1]
					}
					return true
				}
				nodes = append(nodes, m)
				switch t := m.(type) {
				case *ast.IfStmt:
					conds = append(conds, exprString(t.Cond))
				case *ast.SendStmt:
					v := sendValue(t.Value)
					if cl, ok := t.Value.(*ast.CompositeLit); ok && len(cl.Elts) == 3 && len(ps) == 3 {
						first, third := exprString(cl.Elts[0]), exprString(cl.Elts[2])
						if first == ps[0] && third == ps[2] {
							v = typeName(cl.Type) + "{path,info,err}" // the callback's own path and error, and the entry's FileInfo
						}
					}
					walkShape = append(walkShape, "send "+exprString(t.Chan)+"<-"+v+" under ["+strings.Join(conds, "; ")+"]")
					sendPos = t.Pos()
				case *ast.ReturnStmt:
					for _, r := range t.Results {
						rets[exprString(r)] = true
						if exprString(r) == "filepath.SkipDir" {
							skipPos = t.Pos()
							all := strings.Join(conds, " && ")
							var need []string
							for _, a := range []string{"fs.dev!=0", "IsDir()", ".Dev)!=fs.dev"} {
								if strings.Contains(all, a) {
									need = append(need, a)
								}
							}
							walkShape = append(walkShape, "skipdir-needs:"+strings.Join(need, ","))
						}
					}
				}
				return true
			})
			if skipPos != token.NoPos && sendPos != token.NoPos {
				if skipPos < sendPos {
					walkShape = append(walkShape, "skip-before-send")
				} else {
					walkShape = append(walkShape, "send-before-skip")
				}
			}
			var rs []string
			for r := range rets {
				rs = append(rs, r)
			}
			sort.Strings(rs)
			walkShape = append(walkShape, "returns:"+strings.Join(rs, ","))
			return false
		})
	}
	sort.Strings(walkShape)
	c.lean.WriteString("/-- `startSerializer`: the walk, what its callback sends and when it skips -/\n")
	c.emitShape("lfsread_walk", "lfsWalkCallback", walkShape, ser != nil && len(walkShape) > 0)

	// (6) tar.go reads `f.Size` in one place only: the payload of a regular file (the size the reader reports for a
	// directory or a device node is the file system's business)
	var sizeUses []string
	if fd := c.funcDecl(c.files, "", "tar"); fd != nil {
		var conds []string
		var nodes []ast.Node
		ast.Inspect(fd.Body, func(n ast.Node) bool {
			if n == nil {
				top := nodes[len(nodes)-1]
				nodes = nodes[:len(nodes)-1]
				if _, ok := top.(*ast.CaseClause); ok {
					conds = conds[:len(conds)-1]
				}
				return true
			}
			nodes = append(nodes, n)
			switch t := n.(type) {
			case *ast.CaseClause:
				cs := []string{}
				for _, e := range t.List {
					cs = append(cs, exprString(e))
				}
				conds = append(conds, "case "+strings.Join(cs, ","))
			case *ast.SelectorExpr:
				if exprString(t) == "f.Size" {
					sizeUses = append(sizeUses, strings.Join(conds, "; "))
				}
			}
			return true
		})
	}
	c.lean.WriteString("/-- tar.go: where `f.Size` is read -/\n")
	c.emitShape("lfsread_size_use", "tarSizeUses", sizeUses, len(sizeUses) > 0)
}

func sendValue(e ast.Expr) string {
	if cl, ok := e.(*ast.CompositeLit); ok {
		es := []string{}
		for _, el := range cl.Elts {
			es = append(es, exprString(el))
		}
		return typeName(cl.Type) + "{" + strings.Join(es, ",") + "}"
	}
	return exprString(e)
}
