package main

import (
	"fmt"
	"go/ast"
	"go/token"
	"sort"
	"strings"
)

// localfs_other.go, the reading side of LocalFS (C05 / C13): what `Next` puts into the File it returns and where it
// takes it from, the device-number split, the NoTime override, the guards of Readlink / Open / the xattr calls, and
// the callback `startSerializer` hands to `filepath.Walk` (which entries it sends, which it skips).
func (c *ctx) lfsReadFacts() {
	c.lean.WriteString("\n/-! localfs_other.go: LocalFS.Next and startSerializer (reading side; C05, C13) -/\n")
	file := c.files["localfs_other.go"]
	find := func(name string) *ast.FuncDecl {
		if file == nil {
			return nil
		}
		for _, d := range file.Decls {
			if fd, ok := d.(*ast.FuncDecl); ok && fd.Name.Name == name && fd.Recv != nil && len(fd.Recv.List) == 1 &&
				typeName(fd.Recv.List[0].Type) == "LocalFS" {
				return fd
			}
		}
		return nil
	}
	next := find("Next")

	// (1) the composite literal `&File{…}`: Field=expression, sorted by field
	var fields []string
	// (2) the device numbers
	var majorE, minorE ast.Expr
	// (3) NoTime: `mtime := <src>`, `if <cond> { mtime = <zero> }`
	noTime := []string{}
	// (4) guards: the conditions (innermost last) under which these calls are made
	guards := map[string][]string{}
	args := map[string]string{}
	xaStore := ""
	if next != nil {
		var stack []string
		var nodes []ast.Node
		ast.Inspect(next.Body, func(n ast.Node) bool {
			if n == nil {
				top := nodes[len(nodes)-1]
				nodes = nodes[:len(nodes)-1]
				switch top.(type) {
				case *ast.IfStmt, *ast.RangeStmt, *ast.ForStmt, *ast.CaseClause, *ast.FuncLit:
					stack = stack[:len(stack)-1]
				}
				return true
			}
			nodes = append(nodes, n)
			switch t := n.(type) {
			case *ast.IfStmt:
				stack = append(stack, "if "+exprString(t.Cond))
				if exprString(t.Cond) == "fs.opts.NoTime" && len(t.Body.List) == 1 && t.Else == nil {
					if as, ok := t.Body.List[0].(*ast.AssignStmt); ok && len(as.Lhs) == 1 && len(as.Rhs) == 1 {
						noTime = append(noTime, "if "+exprString(t.Cond)+" "+exprString(as.Lhs[0])+as.Tok.String()+exprString(as.Rhs[0]))
					}
				}
			case *ast.RangeStmt:
				stack = append(stack, "range "+exprString(t.X))
			case *ast.ForStmt:
				stack = append(stack, "for")
			case *ast.CaseClause:
				stack = append(stack, "case")
			case *ast.FuncLit:
				stack = append(stack, "func")
			case *ast.CompositeLit:
				if typeName(t.Type) == "File" {
					for _, el := range t.Elts {
						if kv, ok := el.(*ast.KeyValueExpr); ok {
							fields = append(fields, exprString(kv.Key)+"="+exprString(kv.Value))
						}
					}
				}
			case *ast.AssignStmt:
				for i, l := range t.Lhs {
					if i >= len(t.Rhs) {
						break
					}
					switch exprString(l) {
					case "major":
						majorE = t.Rhs[i]
					case "minor":
						minorE = t.Rhs[i]
					case "mtime":
						if t.Tok == token.DEFINE {
							noTime = append(noTime, "mtime:="+exprString(t.Rhs[i]))
						}
					}
					if ix, ok := l.(*ast.IndexExpr); ok && exprString(ix.X) == "xa" {
						xaStore = exprString(l) + "=" + exprString(t.Rhs[i])
					}
				}
			case *ast.CallExpr:
				fn := exprString(t.Fun)
				for _, want := range []string{"xattr.LList", "xattr.LGet", "os.Readlink", "os.Open"} {
					if fn == want {
						var g []string
						for _, s := range stack {
							if s != "case" && !strings.HasPrefix(s, "if err") { // `if err != nil { return }` never encloses a call of interest
								g = append(g, s)
							}
						}
						guards[want] = g
						as := []string{}
						for _, a := range t.Args {
							as = append(as, exprString(a))
						}
						args[want] = strings.Join(as, ",")
					}
				}
			}
			return true
		})
	}
	sort.Strings(fields)
	c.lean.WriteString("/-- `LocalFS.Next`: the fields of the `File` it returns and the expressions they are set from -/\n")
	c.emitShape("lfsread_file_literal", "lfsNextFile", fields, next != nil && len(fields) > 0)
	c.useLets(next)
	env := map[string]string{"sys.Rdev": "r"}
	c.lean.WriteString("-- device numbers out of `st_rdev`\n")
	c.emitExpr("lfsread_major", "lfsNextMajor", "(r : UInt64)", "UInt64", majorE, env, "0")
	c.emitExpr("lfsread_minor", "lfsNextMinor", "(r : UInt64)", "UInt64", minorE, env, "0")
	c.lets = nil
	c.lean.WriteString("/-- the modification time: the entry's, or the epoch under `NoTime` -/\n")
	c.emitShape("lfsread_notime", "lfsNextNoTime", noTime, len(noTime) > 0)
	var calls []string
	for _, k := range []string{"xattr.LList", "xattr.LGet", "os.Readlink", "os.Open"} {
		if _, ok := args[k]; ok {
			calls = append(calls, k+"("+args[k]+") under ["+strings.Join(guards[k], "; ")+"]")
		}
	}
	if xaStore != "" {
		calls = append(calls, xaStore)
	}
	c.lean.WriteString("/-- the calls that read xattrs, link target and content, with the conditions they are made under -/\n")
	c.emitShape("lfsread_calls", "lfsNextCalls", calls, next != nil && len(calls) > 0)

	// (5) startSerializer: the walk function, its root, and the callback: what it does before sending, the send, its returns
	ser := find("startSerializer")
	var walkShape []string
	if ser != nil {
		ast.Inspect(ser.Body, func(n ast.Node) bool {
			call, ok := n.(*ast.CallExpr)
			if !ok || !strings.HasPrefix(exprString(call.Fun), "filepath.Walk") || len(call.Args) != 2 {
				return true
			}
			walkShape = append(walkShape, exprString(call.Fun)+"("+exprString(call.Args[0])+")")
			lit, ok := call.Args[1].(*ast.FuncLit)
			if !ok {
				walkShape = append(walkShape, "callback:"+exprString(call.Args[1]))
				return false
			}
			ps := []string{}
			for _, f := range lit.Type.Params.List {
				for _, nm := range f.Names {
					ps = append(ps, nm.Name)
				}
			}
			walkShape = append(walkShape, "params:"+strings.Join(ps, ","))
			var stmts func(list []ast.Stmt, pre string)
			stmts = func(list []ast.Stmt, pre string) {
				for _, st := range list {
					switch t := st.(type) {
					case *ast.IfStmt:
						walkShape = append(walkShape, pre+"if "+exprString(t.Cond))
						stmts(t.Body.List, pre+"  ")
						if t.Else != nil {
							walkShape = append(walkShape, pre+"else")
							if b, ok := t.Else.(*ast.BlockStmt); ok {
								stmts(b.List, pre+"  ")
							}
						}
					case *ast.SendStmt:
						walkShape = append(walkShape, pre+"send "+exprString(t.Chan)+"<-"+sendValue(t.Value))
					case *ast.ReturnStmt:
						rs := []string{}
						for _, r := range t.Results {
							rs = append(rs, exprString(r))
						}
						walkShape = append(walkShape, pre+"return "+strings.Join(rs, ","))
					case *ast.AssignStmt:
						// definitions used by the conditions (`st, ok := info.Sys().(*syscall.Stat_t)`)
						if len(t.Rhs) == 1 {
							ls := []string{}
							for _, l := range t.Lhs {
								ls = append(ls, exprString(l))
							}
							walkShape = append(walkShape, pre+strings.Join(ls, ",")+t.Tok.String()+exprString(t.Rhs[0]))
						}
					case *ast.BlockStmt:
						stmts(t.List, pre)
					default:
						walkShape = append(walkShape, pre+fmt.Sprintf("%T", st))
					}
				}
			}
			stmts(lit.Body.List, "")
			return false
		})
	}
	c.lean.WriteString("/-- `startSerializer`: the walk and its callback, statement by statement -/\n")
	c.emitShape("lfsread_walk", "lfsWalkCallback", walkShape, ser != nil && len(walkShape) > 0)

	// (6) tar.go reads `f.Size` in one place only: the payload of a regular file (the size the reader reports for a
	// directory or a device node is the file system's business)
	var sizeUses []string
	if fd := c.funcDecl(c.files, "", "tar"); fd != nil {
		var conds []string
		var nodes []ast.Node
		ast.Inspect(fd.Body, func(n ast.Node) bool {
			if n == nil {
				top := nodes[len(nodes)-1]
				nodes = nodes[:len(nodes)-1]
				if _, ok := top.(*ast.CaseClause); ok {
					conds = conds[:len(conds)-1]
				}
				return true
			}
			nodes = append(nodes, n)
			switch t := n.(type) {
			case *ast.CaseClause:
				cs := []string{}
				for _, e := range t.List {
					cs = append(cs, exprString(e))
				}
				conds = append(conds, "case "+strings.Join(cs, ","))
			case *ast.SelectorExpr:
				if exprString(t) == "f.Size" {
					sizeUses = append(sizeUses, strings.Join(conds, "; "))
				}
			}
			return true
		})
	}
	c.lean.WriteString("/-- tar.go: where `f.Size` is read -/\n")
	c.emitShape("lfsread_size_use", "tarSizeUses", sizeUses, len(sizeUses) > 0)
}

func sendValue(e ast.Expr) string {
	if cl, ok := e.(*ast.CompositeLit); ok {
		es := []string{}
		for _, el := range cl.Elts {
			es = append(es, exprString(el))
		}
		return typeName(cl.Type) + "{" + strings.Join(es, ",") + "}"
	}
	return exprString(e)
}
