package main

// Facts added in session 5: how every store backend constructs the chunk it returns (C03), what
// WriteDedupQueue publishes and how its GetChunk looks at the write queue (C12), where the sequential
// loops of UnTar / tar / pChunker.start poll their context (C07), and how `desync prune` builds its
// keep-set (C16).

import (
	"fmt"
	"sort"
	"go/ast"
	"go/token"
	"strings"
)

// paramOfType returns the name of fd's first parameter whose type prints as one of the given names
func paramOfType(fd *ast.FuncDecl, types ...string) string {
	if fd == nil || fd.Type.Params == nil {
		return ""
	}
	for _, f := range fd.Type.Params.List {
		t := exprString(f.Type)
		for _, want := range types {
			if t == want && len(f.Names) > 0 {
				return f.Names[0].Name
			}
		}
	}
	return ""
}

// ctorShape describes the NewChunkFromStorage call of a backend's chunk-returning function:
// [id argument, converters argument, skip-verify argument, how the result is used] followed by the first
// results of every other return statement that does not return nil ("other:<expr>").
func (c *ctx) ctorShape(fd *ast.FuncDecl) ([]string, bool) {
	if fd == nil {
		return nil, false
	}
	idParam := paramOfType(fd, "ChunkID")
	var shape []string
	found := false
	var ctorCalls = map[*ast.CallExpr]bool{}
	walk(fd.Body, func(n ast.Node) bool {
		call, ok := n.(*ast.CallExpr)
		if !ok || exprString(call.Fun) != "NewChunkFromStorage" || len(call.Args) != 4 {
			return true
		}
		if found { // a second constructor call: record it too
			shape = append(shape, "second-ctor")
		}
		found = true
		ctorCalls[call] = true
		a0 := exprString(call.Args[0])
		if a0 == idParam && idParam != "" {
			a0 = "id"
		}
		a2 := exprString(call.Args[2])
		switch t := call.Args[2].(type) {
		case *ast.SelectorExpr:
			if t.Sel.Name == "converters" {
				a2 = "converters"
			}
		case *ast.CompositeLit:
			a2 = "literal:" + exprString(t)
		}
		a3 := exprString(call.Args[3])
		if sel, ok := call.Args[3].(*ast.SelectorExpr); ok && sel.Sel.Name == "SkipVerify" {
			a3 = "SkipVerify"
		}
		shape = append(shape, a0, a2, a3)
		return true
	})
	// how chunks leave the function
	walk(fd.Body, func(n ast.Node) bool {
		if _, ok := n.(*ast.FuncLit); ok {
			return false
		}
		rs, ok := n.(*ast.ReturnStmt)
		if !ok || len(rs.Results) == 0 {
			return true
		}
		r0 := rs.Results[0]
		if call, ok := r0.(*ast.CallExpr); ok && ctorCalls[call] {
			shape = append(shape, "returned")
			return true
		}
		if s := exprString(r0); s != "nil" {
			shape = append(shape, "other:"+s)
		}
		return true
	})
	return shape, found
}

// pollShape: the first statement of `body` must be a select with an arm `case <-ctx.Done():`; the result says
// what that arm does.
func pollShape(body *ast.BlockStmt) string {
	if body == nil || len(body.List) == 0 {
		return "no-body"
	}
	var sel *ast.SelectStmt
	for _, st := range body.List {
		// leading calls to the verif hooks and comments do not count
		if es, ok := st.(*ast.ExprStmt); ok {
			if call, ok := es.X.(*ast.CallExpr); ok && strings.HasPrefix(exprString(call.Fun), "verif") {
				continue
			}
		}
		s, ok := st.(*ast.SelectStmt)
		if !ok {
			return "first-statement-is-not-select"
		}
		sel = s
		break
	}
	if sel == nil {
		return "no-select"
	}
	for _, cl := range sel.Body.List {
		cc := cl.(*ast.CommClause)
		es, ok := cc.Comm.(*ast.ExprStmt)
		if !ok || exprString(es.X) != "<-ctx.Done()" {
			continue
		}
		var acts []string
		for _, st := range cc.Body {
			switch t := st.(type) {
			case *ast.ReturnStmt:
				r := "return"
				for _, e := range t.Results {
					s := exprString(e)
					if strings.HasPrefix(s, "Interrupted{") {
						r = "return Interrupted"
					}
				}
				acts = append(acts, r)
			case *ast.AssignStmt:
				if len(t.Rhs) == 1 && strings.HasPrefix(exprString(t.Rhs[0]), "Interrupted{") {
					acts = append(acts, "err=Interrupted")
				} else {
					acts = append(acts, "assign")
				}
			default:
				acts = append(acts, "stmt")
			}
		}
		return strings.Join(acts, ";")
	}
	return "no-ctx.Done-arm"
}

func firstFor(fd *ast.FuncDecl) *ast.ForStmt {
	var out *ast.ForStmt
	if fd == nil {
		return nil
	}
	walk(fd.Body, func(n ast.Node) bool {
		if out != nil {
			return false
		}
		if f, ok := n.(*ast.ForStmt); ok {
			out = f
			return false
		}
		return true
	})
	return out
}

func (c *ctx) session5Facts() {
	c.lean.WriteString("\n/-! store backends: the constructor call that produces the chunk a backend returns (C03) -/\n")
	type be struct{ recv, fn, name string }
	for _, b := range []be{{"LocalStore", "GetChunk", "Local"}, {"RemoteHTTP", "GetChunk", "HTTP"}, {"S3Store", "GetChunk", "S3"},
		{"SFTPStore", "GetChunk", "SFTP"}, {"GCStore", "GetChunk", "GCS"}, {"Protocol", "RequestChunk", "Protocol"}} {
		fd := c.funcDecl(c.files, b.recv, b.fn)
		sh, found := c.ctorShape(fd)
		fmt.Fprintf(&c.lean, "/-- `%s.%s`: [id, converters, skip-verify] of its NewChunkFromStorage call, then every non-nil way a chunk leaves the function -/\n", b.recv, b.fn)
		c.emitShape("ctor_"+b.name, "ctor"+b.name, sh, fd != nil && found)
	}
	// wrappers: where the chunk a wrapper returns comes from
	c.lean.WriteString("\n/-! store wrappers: provenance of the chunk each GetChunk returns (C03) -/\n")
	for _, w := range []struct{ recv, name string }{{"Cache", "Cache"}, {"RepairableCache", "RepairableCache"}, {"StoreRouter", "Router"},
		{"FailoverGroup", "Failover"}, {"DedupQueue", "Dedup"}, {"WriteDedupQueue", "WriteDedup"}, {"SwapStore", "Swap"}} {
		fd := c.funcDecl(c.files, w.recv, "GetChunk")
		fmt.Fprintf(&c.lean, "/-- `%s.GetChunk`: every non-nil chunk it returns is one a member returned for the requested ID (or the result published for it) -/\n", w.recv)
		c.emitShape("prov_"+w.name, "prov"+w.name, chunkProvenance(fd), fd != nil)
	}

	// the HTTP handler's upload path verifies through the same constructor
	fd := c.funcDecl(c.files, "HTTPHandler", "put")
	sh, found := c.ctorShape(fd)
	c.lean.WriteString("/-- `HTTPHandler.put` -/\n")
	c.emitShape("ctor_HTTPPut", "ctorHTTPPut", sh, fd != nil && found)

	// chunk.go: the constructor itself — NewChunkFromStorage recomputes the ID unless skipVerify
	fd = c.funcDecl(c.files, "", "NewChunkFromStorage")
	var cs []string
	if fd != nil {
		skip := paramOfType(fd, "bool")
		idp := paramOfType(fd, "ChunkID")
		walk(fd.Body, func(n ast.Node) bool {
			switch t := n.(type) {
			case *ast.IfStmt:
				cond := exprString(t.Cond)
				cond = strings.ReplaceAll(cond, skip, "skip")
				cond = strings.ReplaceAll(cond, idp, "id")
				cs = append(cs, "if:"+cond)
			case *ast.ReturnStmt:
				r := []string{}
				for _, e := range t.Results {
					s := exprString(e)
					if strings.HasPrefix(s, "ChunkInvalid{") {
						s = "ChunkInvalid"
					}
					r = append(r, s)
				}
				cs = append(cs, "return:"+strings.Join(r, ","))
			}
			return true
		})
	}
	c.lean.WriteString("/-- `NewChunkFromStorage`: conditions and returns in source order -/\n")
	c.emitShape("ctor_NewChunkFromStorage", "ctorFromStorageBody", cs, fd != nil)

	c.lean.WriteString("\n/-! writededupqueue.go (C12) -/\n")
	fd = c.funcDecl(c.files, "WriteDedupQueue", "StoreChunk")
	var md []string
	if fd != nil {
		chunkParam := paramOfType(fd, "*Chunk")
		// the variable that receives the upstream StoreChunk's error
		errVar := ""
		walk(fd.Body, func(n ast.Node) bool {
			if as, ok := n.(*ast.AssignStmt); ok && len(as.Rhs) == 1 && len(as.Lhs) == 1 {
				if call, ok := as.Rhs[0].(*ast.CallExpr); ok && strings.HasSuffix(exprString(call.Fun), ".StoreChunk") {
					errVar = exprString(as.Lhs[0])
				}
			}
			return true
		})
		walk(fd.Body, func(n ast.Node) bool {
			call, ok := n.(*ast.CallExpr)
			if !ok || !strings.HasSuffix(exprString(call.Fun), ".markDone") {
				return true
			}
			for _, a := range call.Args {
				s := exprString(a)
				if s == chunkParam && chunkParam != "" {
					s = "chunk"
				} else if s == errVar && errVar != "" {
					s = "err"
				}
				md = append(md, s)
			}
			return true
		})
	}
	c.lean.WriteString("/-- what `WriteDedupQueue.StoreChunk` publishes with markDone: the chunk being written and the upstream error -/\n")
	c.emitShape("shape_wdq_markDoneArgs", "wdqStoreMarkDoneArgs", md, fd != nil)

	fd = c.funcDecl(c.files, "WriteDedupQueue", "GetChunk")
	var rs []string
	if fd != nil {
		walkThrough(fd.Body, nil, func(n ast.Node) bool {
			switch t := n.(type) {
			case *ast.CallExpr:
				fn := exprString(t.Fun)
				switch {
				case strings.HasSuffix(fn, "storeChunkQueue.mu.Lock"):
					rs = append(rs, "lock")
				case strings.HasSuffix(fn, "storeChunkQueue.mu.Unlock"):
					rs = append(rs, "unlock")
				case strings.HasSuffix(fn, ".wait"):
					rs = append(rs, "wait")
				case strings.HasSuffix(fn, "DedupQueue.GetChunk"):
					rs = append(rs, "DedupQueue.GetChunk")
				case strings.HasSuffix(fn, ".GetChunk"):
					rs = append(rs, "other-GetChunk:"+fn)
				}
			case *ast.IndexExpr:
				if strings.HasSuffix(exprString(t.X), "storeChunkQueue.requests") {
					rs = append(rs, "lookup")
				}
			}
			return true
		})
	}
	c.lean.WriteString("/-- `WriteDedupQueue.GetChunk`: the locked look at the write queue, the wait, the fall-through -/\n")
	c.emitShape("shape_wdq_GetChunk", "wdqGetChunkShape", rs, fd != nil)

	// which request queues each de-duplicating method touches
	for _, d := range []struct{ recv, fn, name string }{
		{"DedupQueue", "GetChunk", "dedupQueuesOfGetChunk"}, {"DedupQueue", "HasChunk", "dedupQueuesOfHasChunk"},
		{"WriteDedupQueue", "StoreChunk", "dedupQueuesOfStoreChunk"}, {"WriteDedupQueue", "GetChunk", "dedupQueuesOfWriteGetChunk"},
		{"WriteDedupQueue", "HasChunk", "dedupQueuesOfWriteHasChunk"},
	} {
		fd := c.funcDecl(c.files, d.recv, d.fn)
		seen := map[string]bool{}
		var qs []string
		if fd != nil {
			walkThrough(fd.Body, nil, func(n ast.Node) bool {
				if sel, ok := n.(*ast.SelectorExpr); ok && strings.HasSuffix(sel.Sel.Name, "Queue") && !seen[sel.Sel.Name] {
					seen[sel.Sel.Name] = true
					qs = append(qs, sel.Sel.Name)
				}
				return true
			})
		}
		fmt.Fprintf(&c.lean, "/-- `%s.%s`: the request queues it touches (each kind of request has its own) -/\n", d.recv, d.fn)
		c.emitShape("shape_"+d.name, d.name, qs, fd != nil)
	}

	c.lean.WriteString("\n/-! sequential loops polling their context (C07) -/\n")
	fd = c.funcDecl(c.files, "", "UnTar")
	un := "no-loop"
	after := []string{}
	if f := firstFor(fd); f != nil {
		un = pollShape(f.Body)
		// what follows the loop: the finishUntar hand-over and the final return
		seen := false
		for _, st := range fd.Body.List {
			if st == ast.Stmt(f) {
				seen = true
				continue
			}
			if ls, ok := st.(*ast.LabeledStmt); ok && ls.Stmt == ast.Stmt(f) {
				seen = true
				continue
			}
			if !seen {
				continue
			}
			switch t := st.(type) {
			case *ast.IfStmt:
				for _, b := range t.Body.List {
					if r, ok := b.(*ast.ReturnStmt); ok && len(r.Results) == 1 {
						after = append(after, "if-return:"+exprString(r.Results[0]))
					}
				}
			case *ast.ReturnStmt:
				if len(t.Results) == 1 {
					after = append(after, "return:"+exprString(t.Results[0]))
				}
			}
		}
	}
	fmt.Fprintf(&c.lean, "/-- `UnTar`: what the `ctx.Done()` arm of the select at the top of the loop does -/\ndef untarPoll : String := %q\n", un)
	c.site("poll_UnTar", fd != nil)
	c.lean.WriteString("/-- `UnTar`: the statements after the loop -/\n")
	c.emitShape("poll_UnTar_after", "untarAfterLoop", after, fd != nil)
	c.facts["untarPoll"] = un

	fd = c.funcDecl(c.files, "", "tar")
	tp := "no-func"
	if fd != nil {
		tp = pollShape(fd.Body)
	}
	fmt.Fprintf(&c.lean, "/-- `tar`: what the `ctx.Done()` arm of the select at the top of every call does -/\ndef tarPoll : String := %q\n", tp)
	c.site("poll_tar", fd != nil)
	c.facts["tarPoll"] = tp

	fd = c.funcDecl(c.files, "pChunker", "start")
	pp := "no-loop"
	if f := firstFor(fd); f != nil {
		pp = pollShape(f.Body)
	}
	fmt.Fprintf(&c.lean, "/-- `pChunker.start`: what the `ctx.Done()` arm at the top of the worker loop does -/\ndef pchunkerPoll : String := %q\n", pp)
	c.site("poll_pChunker", fd != nil)
	c.facts["pchunkerPoll"] = pp

	c.untarIndexAssembler()

	c.cmdExtractTail()
	c.nullWriteIntoTable()
	c.cmdDelegates()
	c.cmdServers()

	c.lean.WriteString("\n/-! cmd/desync/prune.go (C16): the keep-set -/\n")
	fd = c.funcDecl(c.cmd, "", "runPrune")
	var ps []string
	if fd != nil {
		// top-level statements: `ids := make(map...)`, the range over args (with the inner range adding IDs), s.Prune(ctx, ids)
		keep := ""
		for _, st := range fd.Body.List {
			switch t := st.(type) {
			case *ast.AssignStmt:
				if len(t.Rhs) == 1 && len(t.Lhs) == 1 {
					if call, ok := t.Rhs[0].(*ast.CallExpr); ok && exprString(call.Fun) == "make" && len(call.Args) >= 1 {
						if _, ok := call.Args[0].(*ast.MapType); ok {
							keep = exprString(t.Lhs[0])
							ps = append(ps, "make-keep-set")
						}
					}
				}
			case *ast.RangeStmt:
				if exprString(t.X) != "args" {
					continue
				}
				ps = append(ps, "range-args")
				walk(t.Body, func(n ast.Node) bool {
					switch u := n.(type) {
					case *ast.AssignStmt:
						if len(u.Lhs) == 1 {
							if ix, ok := u.Lhs[0].(*ast.IndexExpr); ok && exprString(ix.X) == keep && keep != "" {
								ps = append(ps, "add:"+lastSel(ix.Index))
							} else if exprString(u.Lhs[0]) == keep && keep != "" {
								ps = append(ps, "reassign-keep-set")
							}
						}
					case *ast.CallExpr:
						if exprString(u.Fun) == "delete" || exprString(u.Fun) == "clear" {
							ps = append(ps, exprString(u.Fun))
						}
					}
					return true
				})
			case *ast.ReturnStmt:
				if len(t.Results) == 1 {
					if call, ok := t.Results[0].(*ast.CallExpr); ok && strings.HasSuffix(exprString(call.Fun), ".Prune") && len(call.Args) == 2 {
						a := exprString(call.Args[1])
						if a == keep {
							a = "keep-set"
						}
						ps = append(ps, "Prune:"+a)
					}
				}
			}
		}
	}
	c.lean.WriteString("/-- `runPrune`: one keep-set made before the loop over the index files, every chunk ID of every index added, then Prune -/\n")
	c.emitShape("shape_cmd_prune", "cmdPruneShape", ps, fd != nil)
}

func lastSel(e ast.Expr) string {
	if s, ok := e.(*ast.SelectorExpr); ok {
		return s.Sel.Name
	}
	return exprString(e)
}

var _ = token.NoPos

// untarIndexAssembler: what the assembler goroutine of UnTarIndex does when its select picks ctx.Done()
// (the select that also receives from the `assemble` channel)
func (c *ctx) untarIndexAssembler() {
	fd := c.funcDecl(c.files, "", "UnTarIndex")
	var acts []string
	found := false
	if fd != nil {
		walk(fd.Body, func(n ast.Node) bool {
			sel, ok := n.(*ast.SelectStmt)
			if !ok {
				return true
			}
			hasAssemble := false
			var done *ast.CommClause
			for _, cl := range sel.Body.List {
				cc := cl.(*ast.CommClause)
				switch t := cc.Comm.(type) {
				case *ast.AssignStmt:
					if len(t.Rhs) == 1 && exprString(t.Rhs[0]) == "<-assemble" {
						hasAssemble = true
					}
				case *ast.ExprStmt:
					if exprString(t.X) == "<-ctx.Done()" {
						done = cc
					}
				}
			}
			if !hasAssemble || done == nil {
				return true
			}
			found = true
			for _, st := range done.Body {
				switch t := st.(type) {
				case *ast.ExprStmt:
					if call, ok := t.X.(*ast.CallExpr); ok {
						fn := exprString(call.Fun)
						if strings.HasSuffix(fn, ".CloseWithError") && len(call.Args) == 1 && strings.HasPrefix(exprString(call.Args[0]), "Interrupted{") {
							acts = append(acts, "CloseWithError(Interrupted)")
						} else {
							acts = append(acts, "call:"+fn)
						}
					}
				case *ast.ReturnStmt:
					r := "return"
					for _, e := range t.Results {
						if strings.HasPrefix(exprString(e), "Interrupted{") {
							r = "return Interrupted"
						} else {
							r = "return " + exprString(e)
						}
					}
					acts = append(acts, r)
				case *ast.BranchStmt:
					acts = append(acts, t.Tok.String())
				default:
					acts = append(acts, "stmt")
				}
			}
			return true
		})
	}
	c.lean.WriteString("/-- `UnTarIndex`: the `ctx.Done()` arm of the assembler's select -/\n")
	c.emitShape("poll_UnTarIndex_assembler", "untarIndexAssemblerOnCancel", acts, found)
}

// cmdExtractTail: what runExtract does with the error of the assembly (cmd/desync/extract.go): the statements that
// follow the if/else calling writeInplace / writeWithTmpFile, in order
func (c *ctx) cmdExtractTail() {
	fd := c.funcDecl(c.cmd, "", "runExtract")
	var tail []string
	found := false
	if fd != nil {
		after := false
		for _, st := range fd.Body.List {
			if !after {
				if ifs, ok := st.(*ast.IfStmt); ok {
					src := ""
					walk(ifs, func(n ast.Node) bool {
						if call, ok := n.(*ast.CallExpr); ok {
							src += exprString(call.Fun) + ";"
						}
						return true
					})
					if strings.Contains(src, "writeInplace") && strings.Contains(src, "writeWithTmpFile") {
						after, found = true, true
					}
				}
				continue
			}
			switch t := st.(type) {
			case *ast.IfStmt:
				d := "if:" + exprString(t.Cond)
				for _, b := range t.Body.List {
					if r, ok := b.(*ast.ReturnStmt); ok && len(r.Results) == 1 {
						res := exprString(r.Results[0])
						if call, ok := r.Results[0].(*ast.CallExpr); ok {
							res = exprString(call.Fun) + "(…)"
						}
						d += ":return " + res
					} else {
						d += ":stmt"
					}
				}
				tail = append(tail, d)
			case *ast.ReturnStmt:
				if len(t.Results) == 1 {
					tail = append(tail, "return "+exprString(t.Results[0]))
				}
			default:
				tail = append(tail, "stmt")
			}
		}
	}
	c.lean.WriteString("\n/-! cmd/desync/extract.go (C01): the assembly's error is returned before anything else is done -/\n")
	c.emitShape("shape_cmd_extract_tail", "cmdExtractTail", tail, found)
}

// cmdDelegates: command functions that must hand their work to a library entry point whatever their arguments
// are: every `return nil` that precedes the call, and the worker-count argument of the call, are recorded
func (c *ctx) cmdDelegates() {
	c.lean.WriteString("\n/-! cmd/desync: commands that delegate to a library function (no early success) -/\n")
	for _, d := range []struct{ fn, callee, name string }{
		{"runVerifyIndex", "desync.VerifyIndex", "cmdVerifyIndexShape"},
		{"runVerify", ".Verify", "cmdVerifyShape"},
	} {
		fd := c.funcDecl(c.cmd, "", d.fn)
		var sh []string
		found := false
		if fd != nil {
			var callPos token.Pos
			walk(fd.Body, func(n ast.Node) bool {
				if call, ok := n.(*ast.CallExpr); ok && strings.HasSuffix(exprString(call.Fun), d.callee) && callPos == 0 {
					callPos = call.Pos()
					found = true
					args := []string{}
					for _, a := range call.Args { // which options reach the library call; how the locals are called does not matter
						if as := exprString(a); strings.HasPrefix(as, "opt.") {
							args = append(args, as)
						}
					}
					sh = append(sh, "call("+strings.Join(args, ",")+")")
				}
				return true
			})
			walk(fd.Body, func(n ast.Node) bool {
				if r, ok := n.(*ast.ReturnStmt); ok && callPos != 0 && r.Pos() < callPos && len(r.Results) == 1 && exprString(r.Results[0]) == "nil" {
					sh = append([]string{"early-return-nil"}, sh...)
				}
				return true
			})
		}
		c.emitShape("shape_"+d.name, d.name, sh, found)
	}
}

// cmdServers: how `desync chunk-server` / `index-server` configure their handler: where the authorization value
// comes from and which options reach the handler's constructor
func (c *ctx) cmdServers() {
	c.lean.WriteString("\n/-! cmd/desync chunk-server / index-server (C15): option plumbing -/\n")
	for _, d := range []struct{ fn, ctor, name string }{
		{"runChunkServer", "desync.NewHTTPHandler", "cmdChunkServerPlumbing"},
		{"runIndexServer", "desync.NewHTTPIndexHandler", "cmdIndexServerPlumbing"},
	} {
		fd := c.funcDecl(c.cmd, "", d.fn)
		var sh []string
		found := false
		if fd != nil {
			walk(fd.Body, func(n ast.Node) bool {
				switch t := n.(type) {
				case *ast.IfStmt:
					// if opt.auth == "" { opt.auth = os.Getenv("DESYNC_HTTP_AUTH") }
					if exprString(t.Cond) == `opt.auth==""` {
						for _, b := range t.Body.List {
							if as, ok := b.(*ast.AssignStmt); ok && len(as.Lhs) == 1 && len(as.Rhs) == 1 {
								sh = append(sh, "env-fallback:"+exprString(as.Lhs[0])+"="+exprString(as.Rhs[0]))
							}
						}
					}
				case *ast.CallExpr:
					if exprString(t.Fun) == d.ctor {
						found = true
						args := []string{}
						for _, a := range t.Args[1:] {
							args = append(args, exprString(a))
						}
						sh = append(sh, "handler("+strings.Join(args, ",")+")")
					}
				}
				return true
			})
		}
		c.emitShape("shape_"+d.name, d.name, sh, found)
	}
}

// chunkProvenance lists, sorted and without duplicates, where the first result of every return statement of fd comes
// from: "member.GetChunk(id)" for the result of a GetChunk call with the function's own ID parameter, "wait()" for the
// published result of an in-flight request, otherwise the expression as written
func chunkProvenance(fd *ast.FuncDecl) []string {
	if fd == nil {
		return nil
	}
	idParam := paramOfType(fd, "ChunkID")
	norm := func(e ast.Expr) string { return normProv(e, idParam) }
	// sources of each identifier (position 0 of an assignment / type-switch binding)
	src := map[string][]string{}
	walk(fd.Body, func(n ast.Node) bool {
		switch t := n.(type) {
		case *ast.AssignStmt:
			if ta, ok := t.Rhs[0].(*ast.TypeAssertExpr); ok && ta.Type == nil {
				return true // the binding of a type switch: handled below
			}
			if len(t.Lhs) >= 1 && len(t.Rhs) == 1 {
				if id, ok := t.Lhs[0].(*ast.Ident); ok {
					src[id.Name] = append(src[id.Name], norm(t.Rhs[0]))
				}
			}
		case *ast.TypeSwitchStmt:
			if as, ok := t.Assign.(*ast.AssignStmt); ok && len(as.Lhs) == 1 && len(as.Rhs) == 1 {
				if ta, ok := as.Rhs[0].(*ast.TypeAssertExpr); ok {
					if id, ok := as.Lhs[0].(*ast.Ident); ok {
						src[id.Name] = append(src[id.Name], "typeswitch:"+exprString(ta.X))
					}
				}
			}
		}
		return true
	})
	var resolve func(name string, depth int) []string
	resolve = func(name string, depth int) []string {
		ss, ok := src[name]
		if !ok || depth > 4 {
			return []string{name}
		}
		var out []string
		for _, s := range ss {
			if strings.HasPrefix(s, "typeswitch:") {
				out = append(out, resolve(strings.TrimPrefix(s, "typeswitch:"), depth+1)...)
			} else {
				out = append(out, s)
			}
		}
		return out
	}
	seen := map[string]bool{}
	var out []string
	add := func(s string) {
		if !seen[s] {
			seen[s] = true
			out = append(out, s)
		}
	}
	walk(fd.Body, func(n ast.Node) bool {
		if _, ok := n.(*ast.FuncLit); ok {
			return false
		}
		r, ok := n.(*ast.ReturnStmt)
		if !ok || len(r.Results) == 0 {
			return true
		}
		switch e := r.Results[0].(type) {
		case *ast.Ident:
			if e.Name == "nil" {
				return true
			}
			for _, s := range resolve(e.Name, 0) {
				add(s)
			}
		default:
			add(norm(e))
		}
		return true
	})
	sort.Strings(out)
	return out
}

// normProv names where an expression's value comes from
func normProv(e ast.Expr, idParam string) string {
	call, ok := e.(*ast.CallExpr)
	if !ok {
		return exprString(e)
	}
	fn := exprString(call.Fun)
	switch {
	case strings.HasSuffix(fn, ".GetChunk") && len(call.Args) == 1:
		a := exprString(call.Args[0])
		if a == idParam && idParam != "" {
			a = "id"
		}
		return "member.GetChunk(" + a + ")"
	case strings.HasSuffix(fn, ".wait"):
		return "wait()"
	}
	if resolveLocal(call) != nil && len(call.Args) > 0 { // a local helper hands on what it is given
		var parts []string
		for _, a := range call.Args {
			if p := normProv(a, idParam); p != "" && p != "nil" {
				parts = append(parts, p)
			}
		}
		if len(parts) == 1 {
			return parts[0]
		}
	}
	return "call:" + fn
}

// decisionTable interprets the statements of a function body whose control flow is if / tagless switch / return over
// boolean atoms (identifiers or selectors named in `atoms`, possibly negated and combined with && and ||), for every
// assignment of the atoms, and reports which of the `leaves` (a call whose callee ends with the given suffix, or
// "return" for a return that calls none of them) is reached first.  The result does not depend on how the decision
// is spelled (nested ifs, a switch, inverted conditions with swapped branches).
func decisionTable(body *ast.BlockStmt, atoms []string, leaves [][2]string) []string {
	var rows []string
	n := len(atoms)
	for mask := 0; mask < 1<<uint(n); mask++ {
		env := map[string]bool{}
		var tag []string
		for i, a := range atoms {
			env[a] = mask&(1<<uint(n-1-i)) != 0
			tag = append(tag, fmt.Sprintf("%v", env[a]))
		}
		rows = append(rows, strings.Join(tag, ",")+"->"+runBlock(body.List, env, leaves))
	}
	return rows
}

func evalBool(e ast.Expr, env map[string]bool) (val, known bool) {
	switch t := e.(type) {
	case *ast.ParenExpr:
		return evalBool(t.X, env)
	case *ast.UnaryExpr:
		if t.Op == token.NOT {
			v, k := evalBool(t.X, env)
			return !v, k
		}
	case *ast.BinaryExpr:
		l, lk := evalBool(t.X, env)
		r, rk := evalBool(t.Y, env)
		switch t.Op {
		case token.LAND:
			if (lk && !l) || (rk && !r) {
				return false, true
			}
			return l && r, lk && rk
		case token.LOR:
			if (lk && l) || (rk && r) {
				return true, true
			}
			return l || r, lk && rk
		}
	default:
		s := exprString(e)
		for a, v := range env {
			if s == a || strings.HasSuffix(s, "."+a) {
				return v, true
			}
		}
	}
	return false, false
}

func leafOf(st ast.Stmt, leaves [][2]string) string {
	found := ""
	walk(st, func(n ast.Node) bool {
		if call, ok := n.(*ast.CallExpr); ok && found == "" {
			fn := exprString(call.Fun)
			for _, l := range leaves {
				if strings.HasSuffix(fn, l[0]) {
					found = l[1]
				}
			}
		}
		return true
	})
	return found
}

// runBlock returns the first leaf reached, "return" for a return without a leaf, "" when the block falls through,
// "?" when a condition is not a function of the atoms
func runBlock(list []ast.Stmt, env map[string]bool, leaves [][2]string) string {
	for _, st := range list {
		switch t := st.(type) {
		case *ast.IfStmt:
			v, known := evalBool(t.Cond, env)
			if !known {
				// a guard that does not depend on the atoms (an error check): it is not part of the decision
				continue
			}
			var r string
			if v {
				r = runBlock(t.Body.List, env, leaves)
			} else if t.Else != nil {
				switch e := t.Else.(type) {
				case *ast.BlockStmt:
					r = runBlock(e.List, env, leaves)
				case *ast.IfStmt:
					r = runBlock([]ast.Stmt{e}, env, leaves)
				}
			}
			if r != "" {
				return r
			}
		case *ast.SwitchStmt:
			if t.Tag != nil {
				return "?"
			}
			var def *ast.CaseClause
			taken := false
			for _, cl := range t.Body.List {
				cc := cl.(*ast.CaseClause)
				if cc.List == nil {
					def = cc
					continue
				}
				hit := false
				for _, e := range cc.List {
					v, known := evalBool(e, env)
					if !known {
						return "?"
					}
					hit = hit || v
				}
				if hit {
					taken = true
					if r := runBlock(cc.Body, env, leaves); r != "" {
						return r
					}
					break
				}
			}
			if !taken && def != nil {
				if r := runBlock(def.Body, env, leaves); r != "" {
					return r
				}
			}
		case *ast.ReturnStmt:
			if l := leafOf(t, leaves); l != "" {
				return l
			}
			return "return"
		default:
			if l := leafOf(st, leaves); l != "" {
				return l
			}
		}
	}
	return ""
}

// nullWriteIntoTable: what nullChunkSection.WriteInto does for every combination of (canReflink, isBlank)
func (c *ctx) nullWriteIntoTable() {
	fd := c.funcDecl(c.files, "nullChunkSection", "WriteInto")
	var rows []string
	if fd != nil {
		rows = decisionTable(fd.Body, []string{"canReflink", "isBlank"}, [][2]string{{".clone", "clone"}, {".copy", "copy"}})
	}
	c.lean.WriteString("\n/-- `nullChunkSection.WriteInto`: (canReflink, isBlank) -> what is done (clone the range, fill it by copying zeros, or return without writing); read off the control flow, however it is spelled -/\n")
	c.emitShape("table_null_writeInto", "nullWriteIntoTable", rows, fd != nil)
}
