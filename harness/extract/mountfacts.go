package main

import (
	"fmt"
	"go/ast"
	"strings"
)

// mount-index.go / mount-sparse.go: what ONE read request does with the file handle it shares with the other requests in
// flight on the same open file (C09; go-fuse serves every request in its own goroutine).
//
// indexFileHandle.read: the operations on the handle's mutex and on the handle's reader, in execution order along the path
// that does not return early: "lock" / "unlock" (a deferred Unlock counts at the end of its function), "seek", "read".
// Immediately invoked function literals and unexported helpers are looked through (each with its own defers).  Mutex
// operations inside a branch that ends in a return are listed separately.  Anything else that touches the mutex or the
// reader (RLock, TryLock, another method of the reader, a go statement) appears under its own name, which the model does
// not know.
func (c *ctx) mountFacts() {
	c.lean.WriteString("\n/-! mount-index.go / mount-sparse.go: the file handle shared by concurrent read requests (C09) -/\n")

	// the fields of the handle: the mutex and the reader
	muField, muType, rdField := "", "", ""
	for _, f := range c.files {
		for _, d := range f.Decls {
			gd, ok := d.(*ast.GenDecl)
			if !ok {
				continue
			}
			for _, sp := range gd.Specs {
				ts, ok := sp.(*ast.TypeSpec)
				if !ok || ts.Name.Name != "indexFileHandle" {
					continue
				}
				st, ok := ts.Type.(*ast.StructType)
				if !ok {
					continue
				}
				for _, fl := range st.Fields.List {
					t := exprString(fl.Type)
					for _, n := range fl.Names {
						switch {
						case strings.HasPrefix(t, "sync."):
							muField, muType = n.Name, t
						case t == "*IndexPos":
							rdField = n.Name
						}
					}
				}
			}
		}
	}
	fd := c.funcDecl(c.files, "indexFileHandle", "read")
	var w handleWalk
	if fd != nil && muField != "" && rdField != "" {
		w = handleWalk{mu: muField, rd: rdField}
		w.block(fd.Body.List, 0, false)
	}
	c.site("mountIndex_handleRead", fd != nil && muField != "" && rdField != "" && len(w.ops) > 0)
	fmt.Fprintf(&c.lean, "/-- `indexFileHandle.read`: operations on the handle's mutex `%s` and reader `%s`, in execution order -/\n", muField, rdField)
	fmt.Fprintf(&c.lean, "def mountIndexHandleOps : List String := [%s]\n", quoteList(w.ops))
	fmt.Fprintf(&c.lean, "/-- mutex / reader operations inside branches that return early -/\ndef mountIndexHandleErrPathOps : List String := [%s]\n", quoteList(w.onReturn))
	fmt.Fprintf(&c.lean, "def mountIndexHandleMutexType : String := %q\n", muType)
	c.facts["mountIndexHandleOps"] = w.ops
	c.facts["mountIndexHandleErrPathOps"] = w.onReturn
	c.facts["mountIndexHandleMutexType"] = muType

	// who else touches the handle's reader: methods with receiver indexFileHandle that mention the reader field
	var users []string
	for _, f := range c.files {
		for _, d := range f.Decls {
			m, ok := d.(*ast.FuncDecl)
			if !ok || m.Recv == nil || len(m.Recv.List) != 1 || typeName(m.Recv.List[0].Type) != "indexFileHandle" || m.Body == nil {
				continue
			}
			uses := false
			walk(m.Body, func(n ast.Node) bool {
				if se, ok := n.(*ast.SelectorExpr); ok && se.Sel.Name == rdField {
					uses = true
				}
				return true
			})
			if uses {
				users = append(users, m.Name.Name)
			}
		}
	}
	sortStrings(users)
	fmt.Fprintf(&c.lean, "/-- the methods of the handle that use its reader -/\ndef mountIndexHandleReaderUsers : List String := [%s]\n", quoteList(users))
	c.facts["mountIndexHandleReaderUsers"] = users

	// indexFile.Read hands the request to the handle's read and does nothing else with the handle
	var fileRead []string
	if fr := c.funcDecl(c.files, "indexFile", "Read"); fr != nil {
		walk(fr.Body, func(n ast.Node) bool {
			if call, ok := n.(*ast.CallExpr); ok {
				if se, ok := call.Fun.(*ast.SelectorExpr); ok {
					fileRead = append(fileRead, se.Sel.Name)
				}
			}
			return true
		})
	}
	c.site("mountIndex_fileRead", len(fileRead) > 0)
	fmt.Fprintf(&c.lean, "/-- `indexFile.Read`: the method calls it makes -/\ndef mountIndexFileReadCalls : List String := [%s]\n", quoteList(fileRead))
	c.facts["mountIndexFileReadCalls"] = fileRead

	// the sparse mount: sparseIndexFile.Read calls ReadAt on the handle (positional: no position shared between requests),
	// SparseFileHandle.ReadAt loads the range and reads the file with ReadAt
	var sparseRead, sparseReadAt []string
	if fr := c.funcDecl(c.files, "sparseIndexFile", "Read"); fr != nil {
		hv := "" // the variable holding the handle: `f := fh.(*SparseFileHandle)`
		walk(fr.Body, func(n ast.Node) bool {
			switch t := n.(type) {
			case *ast.AssignStmt:
				if len(t.Lhs) == 1 && len(t.Rhs) == 1 {
					if ta, ok := t.Rhs[0].(*ast.TypeAssertExpr); ok && typeName(ta.Type) == "SparseFileHandle" {
						hv = exprString(t.Lhs[0])
					}
				}
			case *ast.CallExpr:
				if se, ok := t.Fun.(*ast.SelectorExpr); ok && hv != "" && rootIdent(se.X) == hv {
					sparseRead = append(sparseRead, strings.TrimPrefix(exprString(t.Fun), hv+"."))
				}
			}
			return true
		})
	}
	if fr := c.funcDecl(c.files, "SparseFileHandle", "ReadAt"); fr != nil && fr.Recv != nil && len(fr.Recv.List[0].Names) == 1 {
		rv := fr.Recv.List[0].Names[0].Name
		walk(fr.Body, func(n ast.Node) bool {
			if call, ok := n.(*ast.CallExpr); ok {
				if se, ok := call.Fun.(*ast.SelectorExpr); ok && rootIdent(se.X) == rv {
					sparseReadAt = append(sparseReadAt, strings.TrimPrefix(exprString(call.Fun), rv+"."))
				}
			}
			return true
		})
	}
	c.site("mountSparse_read", len(sparseRead) > 0 && len(sparseReadAt) > 0)
	fmt.Fprintf(&c.lean, "/-- `sparseIndexFile.Read`: the calls on the file handle -/\ndef mountSparseReadCalls : List String := [%s]\n", quoteList(sparseRead))
	fmt.Fprintf(&c.lean, "/-- `SparseFileHandle.ReadAt`: the calls through the receiver -/\ndef mountSparseHandleReadAtCalls : List String := [%s]\n", quoteList(sparseReadAt))
	c.facts["mountSparseReadCalls"] = sparseRead
	c.facts["mountSparseHandleReadAtCalls"] = sparseReadAt
}

func sortStrings(l []string) {
	for i := 1; i < len(l); i++ {
		for j := i; j > 0 && l[j] < l[j-1]; j-- {
			l[j], l[j-1] = l[j-1], l[j]
		}
	}
}

func rootIdent(e ast.Expr) string {
	for {
		switch t := e.(type) {
		case *ast.Ident:
			return t.Name
		case *ast.SelectorExpr:
			e = t.X
		case *ast.ParenExpr:
			e = t.X
		case *ast.StarExpr:
			e = t.X
		default:
			return ""
		}
	}
}

type handleWalk struct {
	mu, rd   string
	ops      []string
	onReturn []string
}

func (w *handleWalk) emit(op string, early bool) {
	if early {
		w.onReturn = append(w.onReturn, op)
	} else {
		w.ops = append(w.ops, op)
	}
}

// classify a call: an operation on the mutex or the reader of the handle ("" = neither)
func (w *handleWalk) classify(call *ast.CallExpr) string {
	se, ok := call.Fun.(*ast.SelectorExpr)
	if !ok {
		return ""
	}
	inner, ok := se.X.(*ast.SelectorExpr)
	if !ok {
		return ""
	}
	switch inner.Sel.Name {
	case w.mu:
		switch se.Sel.Name {
		case "Lock":
			return "lock"
		case "Unlock":
			return "unlock"
		}
		return "mutex." + se.Sel.Name
	case w.rd:
		switch se.Sel.Name {
		case "Seek":
			// only `Seek(off, io.SeekStart)` is the absolute positioning the model has
			if len(call.Args) == 2 && exprString(call.Args[1]) == "io.SeekStart" {
				return "seek"
			}
			return "seek:" + exprString(call)
		case "Read":
			return "read"
		}
		return "reader." + se.Sel.Name
	}
	return ""
}

func endsInReturn(b *ast.BlockStmt) bool {
	if b == nil || len(b.List) == 0 {
		return false
	}
	switch t := b.List[len(b.List)-1].(type) {
	case *ast.ReturnStmt:
		return true
	case *ast.ExprStmt:
		if call, ok := t.X.(*ast.CallExpr); ok && exprString(call.Fun) == "panic" {
			return true
		}
	}
	return false
}

// block walks a statement list in execution order; deferred mutex operations are emitted when the list (a function body)
// ends.  `early` = inside a branch that returns early.
func (w *handleWalk) block(stmts []ast.Stmt, depth int, early bool) {
	var deferred []string
	for _, st := range stmts {
		switch t := st.(type) {
		case *ast.DeferStmt:
			if op := w.classify(t.Call); op != "" {
				deferred = append(deferred, op)
			} else if lit, ok := t.Call.Fun.(*ast.FuncLit); ok {
				// `defer func() { … }()`: its operations run at the end
				sub := handleWalk{mu: w.mu, rd: w.rd}
				sub.block(lit.Body.List, depth+1, false)
				deferred = append(deferred, sub.ops...)
				deferred = append(deferred, sub.onReturn...)
			}
		case *ast.GoStmt:
			w.emit("go", early)
			w.node(t.Call, depth, early)
		case *ast.IfStmt:
			if t.Init != nil {
				w.node(t.Init, depth, early)
			}
			w.node(t.Cond, depth, early)
			w.block(t.Body.List, depth, early || endsInReturn(t.Body))
			switch e := t.Else.(type) {
			case *ast.BlockStmt:
				w.block(e.List, depth, early || endsInReturn(e))
			case *ast.IfStmt:
				w.block([]ast.Stmt{e}, depth, early)
			}
		case *ast.BlockStmt:
			w.block(t.List, depth, early)
		case *ast.ForStmt:
			w.emit("loop", early)
			w.node(t, depth, early)
		case *ast.RangeStmt:
			w.emit("loop", early)
			w.node(t, depth, early)
		default:
			w.node(st, depth, early)
		}
	}
	for i := len(deferred) - 1; i >= 0; i-- {
		w.emit(deferred[i], early)
	}
}

// node visits the calls inside one statement or expression
func (w *handleWalk) node(n ast.Node, depth int, early bool) {
	ast.Inspect(n, func(m ast.Node) bool {
		switch t := m.(type) {
		case *ast.FuncLit:
			return false // a literal that is not invoked here
		case *ast.CallExpr:
			if op := w.classify(t); op != "" {
				for _, a := range t.Args {
					w.node(a, depth, early)
				}
				w.emit(op, early)
				return false
			}
			if lit, ok := t.Fun.(*ast.FuncLit); ok { // invoked in place: a scope with its own defers
				w.block(lit.Body.List, depth+1, early)
				return false
			}
			if callee := resolveLocal(t); callee != nil && depth < 2 && callee.Body != nil &&
				callee.Recv != nil && typeName(callee.Recv.List[0].Type) == "indexFileHandle" {
				for _, a := range t.Args {
					w.node(a, depth, early)
				}
				w.block(callee.Body.List, depth+1, early)
				return false
			}
		}
		return true
	})
}

var _ = fmt.Sprint
