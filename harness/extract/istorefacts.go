package main

import (
	"fmt"
	"go/ast"
	"go/token"
	"strings"
)

// Index stores (C04): localindex.go, remotehttpindex.go, remotehttp.go (how the request body reaches an attempt),
// httpindexhandler.go put/get, s3index.go and sftpindex.go.  The facts say how a stored index reaches its file or
// object and how it is read back; Model/IndexStore.lean takes the open mode of the local store and the per-attempt
// body of the HTTP client from here.

// stmtsOf flattens a function body into its top-level statements (nil-safe)
func stmtsOf(fd *ast.FuncDecl) []ast.Stmt {
	if fd == nil || fd.Body == nil {
		return nil
	}
	return fd.Body.List
}

// orOperands splits a|b|c
func orOperands(e ast.Expr) []string {
	switch t := e.(type) {
	case *ast.BinaryExpr:
		if t.Op == token.OR {
			return append(orOperands(t.X), orOperands(t.Y)...)
		}
	case *ast.ParenExpr:
		return orOperands(t.X)
	}
	return []string{exprString(e)}
}

// errIfReturns recognises `if err != nil { return …, err }` (any number of results, the last one is err)
func errIfReturns(st ast.Stmt, errName string) bool {
	is, ok := st.(*ast.IfStmt)
	if !ok || exprString(is.Cond) != errName+"!=nil" || len(is.Body.List) != 1 {
		return false
	}
	rs, ok := is.Body.List[0].(*ast.ReturnStmt)
	return ok && len(rs.Results) > 0 && exprString(rs.Results[len(rs.Results)-1]) == errName
}

// nonNilErrCtor: calls whose result is a non-nil error whatever the arguments are
func nonNilErrCtor(e ast.Expr) bool {
	call, ok := e.(*ast.CallExpr)
	if !ok {
		return false
	}
	switch exprString(call.Fun) {
	case "errors.Errorf", "errors.New", "fmt.Errorf":
		return true
	}
	return false
}

// assignsOutside reports whether name is assigned anywhere in n except by the statement `skip`
func assignsTo(n ast.Node, name string, skip ast.Stmt, ok func(rhs ast.Expr) bool) (bad bool) {
	walk(n, func(m ast.Node) bool {
		as, isAs := m.(*ast.AssignStmt)
		if !isAs || ast.Stmt(as) == skip {
			return true
		}
		for i, l := range as.Lhs {
			if exprString(l) != name {
				continue
			}
			var rhs ast.Expr
			if len(as.Rhs) == len(as.Lhs) {
				rhs = as.Rhs[i]
			}
			if rhs == nil || !ok(rhs) {
				bad = true
			}
		}
		return true
	})
	return bad
}

func (c *ctx) indexStoreFacts() {
	c.lean.WriteString("\n/-! index stores: localindex.go, remotehttpindex.go, httpindexhandler.go, s3index.go, sftpindex.go (C04) -/\n")

	// ---- LocalIndexStore.StoreIndex ------------------------------------------------------------------
	fd := c.funcDecl(c.files, "LocalIndexStore", "StoreIndex")
	openCall, fileVar, openErrReturned := "", "", false
	truncates, closes := false, false
	writeTarget, writeErrVar, returnsWriteErr := "", "", false
	sts := stmtsOf(fd)
	for k, st := range sts {
		switch t := st.(type) {
		case *ast.AssignStmt:
			if len(t.Rhs) != 1 {
				continue
			}
			call, ok := t.Rhs[0].(*ast.CallExpr)
			if !ok {
				continue
			}
			switch fn := exprString(call.Fun); {
			case fn == "os.Create" && len(t.Lhs) == 2 && len(call.Args) == 1:
				openCall, fileVar, truncates = "os.Create("+exprString(call.Args[0])+")", exprString(t.Lhs[0]), true
				openErrReturned = k+1 < len(sts) && errIfReturns(sts[k+1], exprString(t.Lhs[1]))
			case fn == "os.OpenFile" && len(t.Lhs) == 2 && len(call.Args) == 3:
				flags := orOperands(call.Args[1])
				openCall, fileVar = "os.OpenFile("+exprString(call.Args[0])+","+strings.Join(flags, "|")+")", exprString(t.Lhs[0])
				write, create := false, false
				for _, f := range flags {
					switch f {
					case "os.O_TRUNC", "syscall.O_TRUNC":
						truncates = true
					case "os.O_WRONLY", "os.O_RDWR":
						write = true
					case "os.O_CREATE":
						create = true
					case "os.O_APPEND", "os.O_EXCL":
						// appending keeps the old content in front, O_EXCL refuses to overwrite: neither is the modelled store
						truncates = false
						flags = nil
					}
				}
				truncates = truncates && write && create && flags != nil
				openErrReturned = k+1 < len(sts) && errIfReturns(sts[k+1], exprString(t.Lhs[1]))
			case shortCall(call) == "WriteTo" && len(call.Args) == 1 && len(t.Lhs) == 2:
				writeTarget, writeErrVar = exprString(call.Args[0]), exprString(t.Lhs[1])
				// the statement that follows returns that error, and nothing else
				if k+1 < len(sts) {
					if rs, ok := sts[k+1].(*ast.ReturnStmt); ok && len(rs.Results) == 1 && exprString(rs.Results[0]) == writeErrVar && writeErrVar != "_" {
						returnsWriteErr = true
					}
				}
			}
		case *ast.DeferStmt:
			if exprString(t.Call.Fun) == fileVar+".Close" && fileVar != "" {
				closes = true
			}
		case *ast.ReturnStmt:
			// `return idx.WriteTo…` cannot type-check (two results); a direct `return err` is handled above
		}
	}
	found := fd != nil && openCall != "" && writeTarget != ""
	c.site("istore_local_store", found)
	fmt.Fprintf(&c.lean, "/-- `LocalIndexStore.StoreIndex` opens the file with `%s`, returns the error of the open, writes with `WriteTo(%s)` and returns its error -/\n", openCall, writeTarget)
	fmt.Fprintf(&c.lean, "def istoreLocalOpen : String := %q\n", openCall)
	fmt.Fprintf(&c.lean, "def istoreLocalTruncates : Bool := %v\n", found && truncates)
	fmt.Fprintf(&c.lean, "def istoreLocalOpenErrReturned : Bool := %v\n", found && openErrReturned)
	fmt.Fprintf(&c.lean, "def istoreLocalWritesOpenedFile : Bool := %v\n", found && writeTarget == fileVar && closes)
	fmt.Fprintf(&c.lean, "def istoreLocalReturnsWriteErr : Bool := %v\n", found && returnsWriteErr)
	c.facts["istoreLocalStore"] = map[string]any{"open": openCall, "truncates": truncates, "openErrReturned": openErrReturned,
		"writeTarget": writeTarget, "returnsWriteErr": returnsWriteErr}

	// ---- LocalIndexStore.GetIndexReader / GetIndex ---------------------------------------------------
	rd := c.funcDecl(c.files, "LocalIndexStore", "GetIndexReader")
	readerOpen := ""
	if sts := stmtsOf(rd); len(sts) == 1 {
		if rs, ok := sts[0].(*ast.ReturnStmt); ok && len(rs.Results) == 1 {
			readerOpen = exprString(rs.Results[0])
		}
	}
	gd := c.funcDecl(c.files, "LocalIndexStore", "GetIndex")
	getShape := []string{}
	decodeErrReturned := false
	if gd != nil {
		sts := stmtsOf(gd)
		var decodeStmt ast.Stmt
		idxVar, errVar, rdrVar := "", "", ""
		for k, st := range sts {
			switch t := st.(type) {
			case *ast.AssignStmt:
				if len(t.Rhs) != 1 || len(t.Lhs) != 2 {
					continue
				}
				call, ok := t.Rhs[0].(*ast.CallExpr)
				if !ok {
					continue
				}
				switch shortCall(call) {
				case "GetIndexReader", "Open":
					rdrVar = exprString(t.Lhs[0])
					getShape = append(getShape, "open:"+shortCall(call)+"("+argList(call)+")")
					if k+1 < len(sts) && errIfReturns(sts[k+1], exprString(t.Lhs[1])) {
						getShape = append(getShape, "open-error-returned")
					}
				case "IndexFromReader":
					decodeStmt = st
					idxVar, errVar = exprString(t.Lhs[0]), exprString(t.Lhs[1])
					arg := argList(call)
					if arg == rdrVar {
						arg = "opened"
					}
					getShape = append(getShape, "decode:IndexFromReader("+arg+")")
				}
			case *ast.ReturnStmt:
				if decodeStmt != nil && len(t.Results) == 2 {
					r0, r1 := exprString(t.Results[0]), exprString(t.Results[1])
					if r0 == idxVar && r1 == errVar {
						getShape = append(getShape, "return:decoded,decode-error")
					} else {
						getShape = append(getShape, "return:"+r0+","+r1)
					}
				}
			}
		}
		if decodeStmt != nil && errVar != "" && errVar != "_" {
			// after the decode: the error variable is only ever replaced by a fresh non-nil error, the index variable by
			// nothing, and every return hands out both
			after := false
			ok := true
			for _, st := range sts {
				if st == decodeStmt {
					after = true
					continue
				}
				if !after {
					continue
				}
				if assignsTo(st, errVar, nil, nonNilErrCtor) || assignsTo(st, idxVar, nil, func(ast.Expr) bool { return false }) {
					ok = false
				}
				walk(st, func(m ast.Node) bool {
					if rs, isRet := m.(*ast.ReturnStmt); isRet {
						if len(rs.Results) != 2 || exprString(rs.Results[0]) != idxVar || exprString(rs.Results[1]) != errVar {
							ok = false
						}
					}
					return true
				})
			}
			last, isRet := sts[len(sts)-1].(*ast.ReturnStmt)
			decodeErrReturned = ok && isRet && len(last.Results) == 2
		}
	}
	c.site("istore_local_get", gd != nil && rd != nil && len(getShape) > 0)
	fmt.Fprintf(&c.lean, "/-- `LocalIndexStore.GetIndexReader` returns `%s`; `GetIndex`: %s -/\n", readerOpen, strings.Join(getShape, ", "))
	fmt.Fprintf(&c.lean, "def istoreLocalReaderOpen : String := %q\n", readerOpen)
	fmt.Fprintf(&c.lean, "def istoreLocalGetShape : List String := [%s]\n", quoteList(getShape))
	fmt.Fprintf(&c.lean, "/-- what `GetIndex` returns after the decode is the decoded index together with the decode error (replaced at most by another non-nil error) -/\n")
	fmt.Fprintf(&c.lean, "def istoreLocalGetReturnsDecodeErr : Bool := %v\n", decodeErrReturned)
	c.facts["istoreLocalGet"] = map[string]any{"readerOpen": readerOpen, "shape": getShape, "decodeErrReturned": decodeErrReturned}

	// ---- RemoteHTTPIndex.StoreIndex: where the request body is built ---------------------------------
	hs := c.funcDecl(c.files, "RemoteHTTPIndex", "StoreIndex")
	bodyPerAttempt, bodyIsEncoding, storeObjectArgs := false, false, ""
	if hs != nil {
		// the function literal handed to StoreObject (directly or through a local variable)
		lits := map[string]*ast.FuncLit{}
		walk(hs.Body, func(n ast.Node) bool {
			if as, ok := n.(*ast.AssignStmt); ok && len(as.Lhs) == 1 && len(as.Rhs) == 1 {
				if fl, ok := as.Rhs[0].(*ast.FuncLit); ok {
					lits[exprString(as.Lhs[0])] = fl
				}
			}
			return true
		})
		var cb *ast.FuncLit
		walk(hs.Body, func(n ast.Node) bool {
			call, ok := n.(*ast.CallExpr)
			if !ok || shortCall(call) != "StoreObject" || len(call.Args) != 2 {
				return true
			}
			switch a := call.Args[1].(type) {
			case *ast.FuncLit:
				cb = a
				storeObjectArgs = exprString(call.Args[0]) + ",func{…}"
			case *ast.Ident:
				cb = lits[a.Name]
				storeObjectArgs = exprString(call.Args[0]) + "," + a.Name
			}
			return false
		})
		if cb != nil {
			// the reader the callback returns is defined INSIDE the callback, by a call (io.Pipe, bytes.NewReader, …)
			defined := map[string]ast.Expr{}
			pipeWriter := ""
			for _, st := range cb.Body.List {
				if as, ok := st.(*ast.AssignStmt); ok && as.Tok == token.DEFINE && len(as.Rhs) == 1 {
					if call, ok := as.Rhs[0].(*ast.CallExpr); ok {
						for _, l := range as.Lhs {
							defined[exprString(l)] = call
						}
						if exprString(call.Fun) == "io.Pipe" && len(as.Lhs) == 2 {
							pipeWriter = exprString(as.Lhs[1])
						}
					}
				}
			}
			walk(cb.Body, func(n ast.Node) bool {
				if _, nested := n.(*ast.FuncLit); nested {
					return false // returns of the writer goroutine are not the callback's
				}
				if rs, ok := n.(*ast.ReturnStmt); ok && len(rs.Results) == 1 {
					switch r := rs.Results[0].(type) {
					case *ast.Ident:
						_, bodyPerAttempt = defined[r.Name]
					case *ast.CallExpr:
						bodyPerAttempt = true
					}
				}
				return true
			})
			// what is written into the pipe is the whole index, and the pipe is closed afterwards
			wrote, closed := false, false
			walk(cb.Body, func(n ast.Node) bool {
				switch t := n.(type) {
				case *ast.CallExpr:
					if shortCall(t) == "WriteTo" && len(t.Args) == 1 && exprString(t.Args[0]) == pipeWriter && pipeWriter != "" {
						wrote = true
					}
				case *ast.DeferStmt:
					if exprString(t.Call.Fun) == pipeWriter+".Close" {
						closed = true
					}
				}
				return true
			})
			bodyIsEncoding = wrote && closed
		}
	}
	// remotehttp.go: the callback is called once per request, and a request is issued once per attempt
	ih := c.funcDecl(c.files, "RemoteHTTPBase", "IssueHttpRequest")
	calledPerRequest := false
	if ih != nil {
		n := 0
		walk(ih.Body, func(m ast.Node) bool {
			if call, ok := m.(*ast.CallExpr); ok && exprString(call.Fun) == "getReader" && len(call.Args) == 0 {
				n++
			}
			return true
		})
		calledPerRequest = n == 1
	}
	c.site("istore_http_store", hs != nil && storeObjectArgs != "" && ih != nil)
	fmt.Fprintf(&c.lean, "/-- `RemoteHTTPIndex.StoreIndex` calls `StoreObject(%s)`; the reader the callback returns is built inside the callback, and `IssueHttpRequest` calls the callback once -/\n", storeObjectArgs)
	fmt.Fprintf(&c.lean, "def istoreHttpStoreObjectArgs : String := %q\n", storeObjectArgs)
	fmt.Fprintf(&c.lean, "def istoreHttpBodyPerAttempt : Bool := %v\n", bodyPerAttempt && calledPerRequest)
	fmt.Fprintf(&c.lean, "/-- the callback pipes `idx.WriteTo` and closes the pipe when it is done -/\ndef istoreHttpBodyIsEncoding : Bool := %v\n", bodyIsEncoding)
	c.facts["istoreHttpStore"] = map[string]any{"storeObjectArgs": storeObjectArgs, "bodyPerAttempt": bodyPerAttempt,
		"calledPerRequest": calledPerRequest, "bodyIsEncoding": bodyIsEncoding}

	// ---- RemoteHTTPIndex.GetIndex -------------------------------------------------------------------
	hg := c.funcDecl(c.files, "RemoteHTTPIndex", "GetIndex")
	hr := c.funcDecl(c.files, "RemoteHTTPIndex", "GetIndexReader")
	httpGet := c.callShape(hr, [][2]string{{".GetObject", "GetObject"}, {"bytes.NewReader", "NewReader"}})
	httpGet = append(httpGet, c.callShape(hg, [][2]string{{".GetIndexReader", "GetIndexReader"}, {"IndexFromReader", "IndexFromReader"}})...)
	c.lean.WriteString("/-- `RemoteHTTPIndex.GetIndexReader` then `GetIndex` -/\n")
	c.emitShape("istore_http_get", "istoreHttpGetShape", httpGet, hg != nil && hr != nil)

	// ---- HTTPIndexHandler.put / get -----------------------------------------------------------------
	hp := c.funcDecl(c.files, "HTTPIndexHandler", "put")
	putShape := []string{}
	if hp != nil {
		decoded := ""
		walk(hp.Body, func(n ast.Node) bool {
			switch t := n.(type) {
			case *ast.AssignStmt:
				if len(t.Rhs) == 1 {
					if call, ok := t.Rhs[0].(*ast.CallExpr); ok && shortCall(call) == "IndexFromReader" && len(t.Lhs) == 2 {
						decoded = exprString(t.Lhs[0])
					}
					if ta, ok := t.Rhs[0].(*ast.TypeAssertExpr); ok {
						putShape = append(putShape, "assert:"+typeName(ta.Type))
					}
				}
			case *ast.CallExpr:
				switch shortCall(t) {
				case "validateWritable":
					putShape = append(putShape, "validateWritable")
				case "IndexFromReader":
					putShape = append(putShape, "IndexFromReader("+argList(t)+")")
				case "StoreIndex":
					a := []string{}
					for _, x := range t.Args {
						s := exprString(x)
						if s == decoded && decoded != "" {
							s = "decoded"
						}
						a = append(a, s)
					}
					putShape = append(putShape, "StoreIndex("+strings.Join(a, ",")+")")
				}
			}
			return true
		})
	}
	c.lean.WriteString("/-- `HTTPIndexHandler.put`: what is stored is the index decoded from the request body, under the handler's name -/\n")
	c.emitShape("istore_handler_put", "istoreHandlerPutShape", putShape, hp != nil)
	hget := c.funcDecl(c.files, "HTTPIndexHandler", "get")
	getSh := []string{}
	if hget != nil {
		got, buf := "", ""
		walk(hget.Body, func(n ast.Node) bool {
			switch t := n.(type) {
			case *ast.AssignStmt:
				if len(t.Rhs) == 1 {
					if call, ok := t.Rhs[0].(*ast.CallExpr); ok {
						switch {
						case shortCall(call) == "GetIndex" && len(t.Lhs) == 2:
							got = exprString(t.Lhs[0])
							getSh = append(getSh, "GetIndex("+argList(call)+")")
						case exprString(call.Fun) == "new" && argList(call) == "bytes.Buffer":
							buf = exprString(t.Lhs[0])
						case shortCall(call) == "WriteTo" && len(call.Args) == 1:
							recv := strings.TrimSuffix(exprString(call.Fun), ".WriteTo")
							if recv == got && exprString(call.Args[0]) == buf && got != "" {
								getSh = append(getSh, "buffer:=WriteTo(fetched)")
							} else {
								getSh = append(getSh, exprString(call))
							}
						}
					}
				}
			case *ast.ExprStmt:
				if call, ok := t.X.(*ast.CallExpr); ok && strings.HasSuffix(exprString(call.Fun), "HTTPHandlerBase.get") && len(call.Args) == 4 {
					b := exprString(call.Args[1])
					if b == buf+".Bytes()" && buf != "" {
						b = "buffer"
					}
					getSh = append(getSh, "send("+b+")")
				}
			}
			return true
		})
	}
	c.lean.WriteString("/-- `HTTPIndexHandler.get`: fetch the index from the wrapped store, re-encode it, send the encoding -/\n")
	c.emitShape("istore_handler_get", "istoreHandlerGetShape", getSh, hget != nil)

	// ---- S3 / SFTP index stores ---------------------------------------------------------------------
	pipeShape := func(fd *ast.FuncDecl, sink string) []string {
		sh := []string{}
		if fd == nil {
			return sh
		}
		pr, pw := "", ""
		walk(fd.Body, func(n ast.Node) bool {
			switch t := n.(type) {
			case *ast.AssignStmt:
				if len(t.Rhs) == 1 && len(t.Lhs) == 2 {
					if call, ok := t.Rhs[0].(*ast.CallExpr); ok && exprString(call.Fun) == "io.Pipe" {
						pr, pw = exprString(t.Lhs[0]), exprString(t.Lhs[1])
						sh = append(sh, "pipe")
					}
				}
			case *ast.DeferStmt:
				if exprString(t.Call.Fun) == pw+".Close" && pw != "" {
					sh = append(sh, "go:defer-close-writer")
				}
			case *ast.CallExpr:
				switch {
				case shortCall(t) == "WriteTo" && len(t.Args) == 1 && exprString(t.Args[0]) == pw && pw != "":
					sh = append(sh, "go:WriteTo(writer)")
				case shortCall(t) == sink:
					for _, a := range t.Args {
						if exprString(a) == pr && pr != "" {
							sh = append(sh, sink+"(reader)")
						}
					}
				}
			}
			return true
		})
		return sh
	}
	s3 := c.funcDecl(c.files, "S3IndexStore", "StoreIndex")
	c.lean.WriteString("/-- `S3IndexStore.StoreIndex`: the encoding is piped into ONE `PutObject` (no temporary object) -/\n")
	c.emitShape("istore_s3_store", "istoreS3StoreShape", pipeShape(s3, "PutObject"), s3 != nil)
	sf := c.funcDecl(c.files, "SFTPIndexStore", "StoreIndex")
	c.lean.WriteString("/-- `SFTPIndexStore.StoreIndex`: the encoding is piped into `SFTPStoreBase.StoreObject` -/\n")
	c.emitShape("istore_sftp_store", "istoreSftpStoreShape", pipeShape(sf, "StoreObject"), sf != nil)
	so := c.funcDecl(c.files, "SFTPStoreBase", "StoreObject")
	soShape := c.callShape(so, [][2]string{{"client.Create", "Create(tmp)"}, {"client.Mkdir", "Mkdir"}, {"io.Copy", "Copy"},
		{"client.Remove", "Remove(tmp)"}, {".Close", "Close"}, {"client.PosixRename", "PosixRename(tmp,name)"}, {"client.Rename", "Rename(tmp,name)"},
		{"client.OpenFile", "OpenFile"}})
	c.lean.WriteString("/-- `SFTPStoreBase.StoreObject`: temporary file, copy, close, rename over the name -/\n")
	c.emitShape("istore_sftp_storeobject", "istoreSftpStoreObjectShape", soShape, so != nil)
}

func argList(call *ast.CallExpr) string {
	a := []string{}
	for _, x := range call.Args {
		a = append(a, exprString(x))
	}
	return strings.Join(a, ",")
}
