package main

import (
	"fmt"
	"go/ast"
	"go/token"
	"strings"
)

// gcs.go / gcsindex.go: the Google Cloud Storage chunk and index stores (C03, C06, C14, C16, C04).
//
// `Model/GCStore.lean` mirrors GetChunk / StoreChunk / HasChunk / RemoveChunk / Prune / idFromName / nameFromID and
// the index store's three methods.  The facts are statement skeletons of a NORMALISED body, so that what is compared
// is the meaning of the function and not its spelling:
//   - logging is dropped: statements that define or call `log` / `Log` (and `verif…` hook calls, by skeleton());
//   - single-definition locals with a side-effect-free right-hand side (a literal, `context.TODO()`,
//     `s.nameFromID(id)`, `s.prefix + name`, `&storage.Query{…}`) are replaced by their definition;
//   - `if … { …return } else X` is the same as `if … { …return }; X`: an else after a branch that leaves the function
//     is flattened, also through `else if` chains;
//   - the remaining locals — `err` included — are renamed in order of definition (l0, l1, …), the receiver is `s`,
//     the parameters are p0, p1, …;
//   - message strings are shortened by skelExpr().
// A body that cannot be normalised like this is emitted as it is: the obligation then fails (refuse, do not guess).

func gcsIsLogExpr(e ast.Expr) bool {
	for {
		switch t := e.(type) {
		case *ast.CallExpr:
			e = t.Fun
		case *ast.SelectorExpr:
			e = t.X
		case *ast.Ident:
			return t.Name == "log" || t.Name == "Log"
		default:
			return false
		}
	}
}

// gcsPure: an expression without side effects whose value does not change during the call
func gcsPure(e ast.Expr, recv string) bool {
	switch t := e.(type) {
	case *ast.BasicLit:
		return true
	case *ast.Ident:
		return true
	case *ast.SelectorExpr:
		return gcsPure(t.X, recv)
	case *ast.BinaryExpr:
		return gcsPure(t.X, recv) && gcsPure(t.Y, recv)
	case *ast.UnaryExpr:
		return t.Op == token.AND && gcsPure(t.X, recv)
	case *ast.CompositeLit:
		for _, x := range t.Elts {
			if kv, ok := x.(*ast.KeyValueExpr); ok {
				x = kv.Value
			}
			if !gcsPure(x, recv) {
				return false
			}
		}
		return true
	case *ast.CallExpr:
		f := exprString(t.Fun)
		ok := f == "context.TODO" || f == "context.Background" || f == recv+".nameFromID" || strings.HasSuffix(f, ".ID") || strings.HasSuffix(f, ".String")
		if !ok {
			return false
		}
		for _, a := range t.Args {
			if !gcsPure(a, recv) {
				return false
			}
		}
		return true
	}
	return false
}

type gcsNorm struct {
	recv   string
	inline map[string]ast.Expr
	rename map[string]string
}

func (g *gcsNorm) expr(e ast.Expr) ast.Expr {
	switch t := e.(type) {
	case *ast.Ident:
		if d, ok := g.inline[t.Name]; ok {
			return g.expr(d)
		}
		if n, ok := g.rename[t.Name]; ok {
			return &ast.Ident{Name: n}
		}
		return t
	case *ast.SelectorExpr:
		return &ast.SelectorExpr{X: g.expr(t.X), Sel: t.Sel}
	case *ast.CallExpr:
		if f := exprString(t.Fun); f == "context.TODO" || f == "context.Background" {
			return &ast.Ident{Name: "emptyCtx"} // both are the empty context
		}
		c := &ast.CallExpr{Fun: g.expr(t.Fun), Ellipsis: t.Ellipsis}
		for _, a := range t.Args {
			c.Args = append(c.Args, g.expr(a))
		}
		return c
	case *ast.BinaryExpr:
		return &ast.BinaryExpr{X: g.expr(t.X), Op: t.Op, Y: g.expr(t.Y)}
	case *ast.UnaryExpr:
		return &ast.UnaryExpr{Op: t.Op, X: g.expr(t.X)}
	case *ast.ParenExpr:
		return g.expr(t.X)
	case *ast.StarExpr:
		return &ast.StarExpr{X: g.expr(t.X)}
	case *ast.IndexExpr:
		return &ast.IndexExpr{X: g.expr(t.X), Index: g.expr(t.Index)}
	case *ast.SliceExpr:
		s := &ast.SliceExpr{X: g.expr(t.X)}
		if t.Low != nil {
			s.Low = g.expr(t.Low)
		}
		if t.High != nil {
			s.High = g.expr(t.High)
		}
		return s
	case *ast.KeyValueExpr:
		return &ast.KeyValueExpr{Key: t.Key, Value: g.expr(t.Value)}
	case *ast.CompositeLit:
		c := &ast.CompositeLit{Type: t.Type}
		for _, x := range t.Elts {
			c.Elts = append(c.Elts, g.expr(x))
		}
		return c
	}
	return e
}

func (g *gcsNorm) exprs(es []ast.Expr) []ast.Expr {
	var out []ast.Expr
	for _, e := range es {
		out = append(out, g.expr(e))
	}
	return out
}

func gcsLeaves(list []ast.Stmt) bool {
	if len(list) == 0 {
		return false
	}
	switch t := list[len(list)-1].(type) {
	case *ast.ReturnStmt:
		return true
	case *ast.BranchStmt:
		return t.Tok == token.CONTINUE || t.Tok == token.BREAK || t.Tok == token.GOTO
	}
	return false
}

func (g *gcsNorm) block(b *ast.BlockStmt) *ast.BlockStmt {
	if b == nil {
		return nil
	}
	return &ast.BlockStmt{List: g.stmts(b.List)}
}

func (g *gcsNorm) stmts(list []ast.Stmt) []ast.Stmt {
	var out []ast.Stmt
	for _, s := range list {
		switch t := s.(type) {
		case *ast.ExprStmt:
			if gcsIsLogExpr(t.X) {
				continue
			}
			out = append(out, &ast.ExprStmt{X: g.expr(t.X)})
		case *ast.DeclStmt:
			gd, ok := t.Decl.(*ast.GenDecl)
			if !ok {
				out = append(out, s)
				continue
			}
			keep := &ast.GenDecl{Tok: gd.Tok}
			for _, sp := range gd.Specs {
				vs, ok := sp.(*ast.ValueSpec)
				if !ok {
					keep.Specs = append(keep.Specs, sp)
					continue
				}
				if len(vs.Names) == 1 && (vs.Names[0].Name == "log" || g.inline[vs.Names[0].Name] != nil) {
					continue
				}
				n := &ast.ValueSpec{Type: vs.Type, Values: g.exprs(vs.Values)}
				for _, id := range vs.Names {
					n.Names = append(n.Names, g.expr(id).(*ast.Ident))
				}
				keep.Specs = append(keep.Specs, n)
			}
			if len(keep.Specs) > 0 {
				out = append(out, &ast.DeclStmt{Decl: keep})
			}
		case *ast.AssignStmt:
			if len(t.Lhs) == 1 {
				if id, ok := t.Lhs[0].(*ast.Ident); ok && (id.Name == "log" || (t.Tok == token.DEFINE && g.inline[id.Name] != nil)) {
					continue
				}
			}
			out = append(out, &ast.AssignStmt{Lhs: g.exprs(t.Lhs), Tok: t.Tok, Rhs: g.exprs(t.Rhs)})
		case *ast.IfStmt:
			n := &ast.IfStmt{Cond: g.expr(t.Cond), Body: g.block(t.Body)}
			if t.Init != nil {
				if in := g.stmts([]ast.Stmt{t.Init}); len(in) == 1 {
					n.Init = in[0]
				}
			}
			if t.Else != nil && gcsLeaves(n.Body.List) {
				// the else part runs exactly when the branch was not taken: flatten
				out = append(out, n)
				if eb, ok := t.Else.(*ast.BlockStmt); ok {
					out = append(out, g.stmts(eb.List)...)
				} else {
					out = append(out, g.stmts([]ast.Stmt{t.Else})...)
				}
				continue
			}
			if t.Else != nil {
				if eb, ok := t.Else.(*ast.BlockStmt); ok {
					n.Else = g.block(eb)
				} else if es := g.stmts([]ast.Stmt{t.Else}); len(es) == 1 {
					n.Else = es[0]
				} else {
					n.Else = &ast.BlockStmt{List: es}
				}
			}
			out = append(out, n)
		case *ast.ForStmt:
			n := &ast.ForStmt{Body: g.block(t.Body)}
			if t.Cond != nil {
				n.Cond = g.expr(t.Cond)
			}
			if t.Init != nil {
				if in := g.stmts([]ast.Stmt{t.Init}); len(in) == 1 {
					n.Init = in[0]
				}
			}
			if t.Post != nil {
				if in := g.stmts([]ast.Stmt{t.Post}); len(in) == 1 {
					n.Post = in[0]
				}
			}
			out = append(out, n)
		case *ast.ReturnStmt:
			out = append(out, &ast.ReturnStmt{Results: g.exprs(t.Results)})
		case *ast.DeferStmt:
			out = append(out, &ast.DeferStmt{Call: g.expr(t.Call).(*ast.CallExpr)})
		case *ast.BlockStmt:
			out = append(out, g.block(t))
		default:
			out = append(out, s)
		}
	}
	return out
}

// gcsNormalise returns the normalised statement list of fd (nil: not found)
func gcsNormalise(fd *ast.FuncDecl) []ast.Stmt {
	if fd == nil || fd.Body == nil {
		return nil
	}
	g := &gcsNorm{recv: "s", inline: map[string]ast.Expr{}, rename: map[string]string{}}
	if fd.Recv != nil && len(fd.Recv.List) == 1 && len(fd.Recv.List[0].Names) == 1 {
		g.recv = fd.Recv.List[0].Names[0].Name
	}
	// definitions and assignments per local
	defs := map[string]int{}
	var order []string
	rhs := map[string]ast.Expr{}
	note := func(id *ast.Ident, e ast.Expr, define bool) {
		if id.Name == "_" {
			return
		}
		if _, seen := defs[id.Name]; !seen {
			if !define {
				return // a parameter, a named result or a package-level variable
			}
			order = append(order, id.Name)
		}
		defs[id.Name]++
		rhs[id.Name] = e
	}
	walk(fd.Body, func(n ast.Node) bool {
		switch t := n.(type) {
		case *ast.AssignStmt:
			for i, l := range t.Lhs {
				if id, ok := l.(*ast.Ident); ok {
					var e ast.Expr
					if len(t.Lhs) == len(t.Rhs) {
						e = t.Rhs[i]
					}
					note(id, e, t.Tok == token.DEFINE)
				}
			}
		case *ast.ValueSpec:
			for i, id := range t.Names {
				var e ast.Expr
				if len(t.Values) == len(t.Names) {
					e = t.Values[i]
				}
				note(id, e, true)
			}
		}
		return true
	})
	for _, n := range order {
		if n != "err" && n != "log" && defs[n] == 1 && rhs[n] != nil && gcsPure(rhs[n], g.recv) {
			g.inline[n] = rhs[n]
		}
	}
	if g.recv != "s" {
		g.rename[g.recv] = "s"
	}
	k := 0
	if fd.Type.Params != nil {
		for _, f := range fd.Type.Params.List {
			for _, id := range f.Names {
				g.rename[id.Name] = fmt.Sprintf("p%d", k)
				k++
			}
		}
	}
	k = 0
	for _, n := range order {
		if n == "log" || g.inline[n] != nil {
			continue
		}
		g.rename[n] = fmt.Sprintf("l%d", k)
		k++
	}
	return g.stmts(fd.Body.List)
}

func (c *ctx) emitGcsSkel(site, name, doc string, fd *ast.FuncDecl) []string {
	var sh []string
	if fd != nil {
		sh = skeleton(gcsNormalise(fd))
	}
	fmt.Fprintf(&c.lean, "/-- %s -/\n", doc)
	c.emitShape(site, name, sh, fd != nil)
	return sh
}

func (c *ctx) gcsFacts() {
	c.lean.WriteString("\n/-! gcs.go / gcsindex.go: the Google Cloud Storage stores (C03, C06, C14, C16, C04); normalised bodies -/\n")
	c.emitGcsSkel("gcs_get", "gcsGetSkel", "`GCStore.GetChunk`", c.funcDecl(c.files, "GCStore", "GetChunk"))
	c.emitGcsSkel("gcs_store", "gcsStoreSkel", "`GCStore.StoreChunk`", c.funcDecl(c.files, "GCStore", "StoreChunk"))
	c.emitGcsSkel("gcs_has", "gcsHasSkel", "`GCStore.HasChunk`", c.funcDecl(c.files, "GCStore", "HasChunk"))
	c.emitGcsSkel("gcs_remove", "gcsRemoveSkel", "`GCStore.RemoveChunk`", c.funcDecl(c.files, "GCStore", "RemoveChunk"))
	c.emitGcsSkel("gcs_prune", "gcsPruneSkel", "`GCStore.Prune`", c.funcDecl(c.files, "GCStore", "Prune"))
	gn := c.emitGcsSkel("gcs_namefromid", "gcsNameFromIDSkel", "`GCStore.nameFromID`", c.funcDecl(c.files, "GCStore", "nameFromID"))
	gi := c.emitGcsSkel("gcs_idfromname", "gcsIDFromNameSkel", "`GCStore.idFromName`", c.funcDecl(c.files, "GCStore", "idFromName"))
	// the model uses `s3Classify` / `nameFromID` for both backends: the two pairs of functions have the same normalised body
	var sn, si []string
	if fd := c.funcDecl(c.files, "S3Store", "nameFromID"); fd != nil {
		sn = skeleton(gcsNormalise(fd))
	}
	if fd := c.funcDecl(c.files, "S3Store", "idFromName"); fd != nil {
		si = skeleton(gcsNormalise(fd))
	}
	same := len(gn) > 0 && len(gi) > 0 && strings.Join(gn, "\n") == strings.Join(sn, "\n") && strings.Join(gi, "\n") == strings.Join(si, "\n")
	c.lean.WriteString("/-- `GCStore.nameFromID` / `idFromName` have the normalised bodies of `S3Store.nameFromID` / `idFromName` -/\n")
	fmt.Fprintf(&c.lean, "def gcsNamesAsS3 : Bool := %v\n", same)
	c.facts["gcsNamesAsS3"] = same
	c.emitGcsSkel("gcs_prefix", "gcsNormalizePrefixSkel", "`normalizeGCPrefix`", c.funcDecl(c.files, "", "normalizeGCPrefix"))
	c.emitGcsSkel("gcs_index_reader", "gcsIndexReaderSkel", "`GCIndexStore.GetIndexReader`", c.funcDecl(c.files, "GCIndexStore", "GetIndexReader"))
	c.emitGcsSkel("gcs_index_get", "gcsIndexGetSkel", "`GCIndexStore.GetIndex`", c.funcDecl(c.files, "GCIndexStore", "GetIndex"))
	c.emitGcsSkel("gcs_index_store", "gcsIndexStoreSkel", "`GCIndexStore.StoreIndex`", c.funcDecl(c.files, "GCIndexStore", "StoreIndex"))
}
