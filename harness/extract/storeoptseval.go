package main

// A small symbolic evaluator for the option plumbing of cmd/desync (C15 / C03 / C20 / C14): it executes the
// statements of a command function on SYMBOLIC values — a flag's value, "was the flag given", an environment
// variable, a field of the configuration entry selected for a location — follows calls to functions and methods
// of the package (value receivers and by-value parameters are COPIES: what a callee assigns to them is gone when
// it returns; pointer receivers and `&x` arguments alias), forks at every `if`/`switch` and merges the two states
// with if-then-else terms, and records what arrives at the constructors named as sinks.  The result does not
// depend on how locals are called, in which order independent assignments are written, or whether a few
// statements live in a helper.  What it cannot interpret becomes an opaque term; a construct it does not know
// (goto, fallthrough, labelled break …) marks the analysis as unsupported, and the site is reported as not found
// rather than guessed.

import (
	"fmt"
	"go/ast"
	"go/token"
	"regexp"
	"sort"
	"strconv"
	"strings"
)

// soTerm: a symbolic scalar. ty: B bool, S string, I integer (also durations), L list of strings, K a named
// constant or constructed value the analysis treats as a symbol.
type soTerm struct {
	op   string // flag changed env cfg cmd str bool int ite eq not and or opq sym nil
	ty   string
	s    string
	args []*soTerm
}

type soStruct struct {
	id      int
	typ     string
	f       map[string]soVal
	base    func(field, ty string) *soTerm // value of a field that was never assigned (nil: the zero value)
	pending map[string]string              // field -> where: written and not read since
}

type soPtr struct{ to *soStruct }
type soFieldRef struct {
	st   *soStruct
	name string
}
type soClosure struct{ lit *ast.FuncLit }
type soTuple struct{ vals []soVal }

type soVal interface{}

func (t *soTerm) String() string {
	switch t.op {
	case "str":
		return strconv.Quote(t.s)
	case "bool", "int", "nil":
		return t.s
	case "flag", "changed", "env", "cfg", "cmd", "opq", "sym":
		return t.op + ":" + t.ty + "(" + t.s + ")"
	}
	parts := make([]string, len(t.args))
	for i, a := range t.args {
		parts[i] = a.String()
	}
	return t.op + "(" + strings.Join(parts, ",") + ")"
}

func soStr(s string) *soTerm { return &soTerm{op: "str", ty: "S", s: s} }
func soBool(b bool) *soTerm  { return &soTerm{op: "bool", ty: "B", s: fmt.Sprint(b)} }
func soOpq(ty, s string) *soTerm {
	return &soTerm{op: "opq", ty: ty, s: s}
}
func soSym(s string) *soTerm { return &soTerm{op: "sym", ty: "K", s: s} }
func soNil() *soTerm         { return &soTerm{op: "nil", ty: "K", s: "nil"} }

func soNot(a *soTerm) *soTerm {
	switch {
	case a.op == "bool":
		return soBool(a.s != "true")
	case a.op == "not":
		return a.args[0]
	}
	return &soTerm{op: "not", ty: "B", args: []*soTerm{a}}
}

// soAnd: conjunction, normalised — the conjuncts of both sides flattened, sorted and without duplicates (the terms
// are pure, so `&&` commutes), literals folded
func soAnd(a, b *soTerm) *soTerm {
	var parts []*soTerm
	var collect func(t *soTerm) bool
	collect = func(t *soTerm) bool {
		switch {
		case t.op == "bool":
			return t.s == "true"
		case t.op == "and":
			return collect(t.args[0]) && collect(t.args[1])
		}
		parts = append(parts, t)
		return true
	}
	if !collect(a) || !collect(b) {
		return soBool(false)
	}
	sort.SliceStable(parts, func(i, j int) bool { return parts[i].String() < parts[j].String() })
	var uniq []*soTerm
	for i, p := range parts {
		if i > 0 && p.String() == parts[i-1].String() {
			continue
		}
		uniq = append(uniq, p)
	}
	for i := range uniq { // x and not x
		for j := range uniq {
			if uniq[j].op == "not" && uniq[j].args[0].String() == uniq[i].String() {
				return soBool(false)
			}
		}
	}
	if len(uniq) == 0 {
		return soBool(true)
	}
	r := uniq[len(uniq)-1]
	for i := len(uniq) - 2; i >= 0; i-- {
		r = &soTerm{op: "and", ty: "B", args: []*soTerm{uniq[i], r}}
	}
	return r
}

func soOr(a, b *soTerm) *soTerm { return soNot(soAnd(soNot(a), soNot(b))) }

func soEq(a, b *soTerm) *soTerm {
	if a.String() == b.String() {
		return soBool(true)
	}
	lit := func(t *soTerm) bool { return t.op == "str" || t.op == "bool" || t.op == "int" || t.op == "nil" }
	if lit(a) && lit(b) {
		return soBool(false)
	}
	if a.ty == "B" && b.op == "bool" {
		if b.s == "true" {
			return a
		}
		return soNot(a)
	}
	if lit(a) && !lit(b) {
		a, b = b, a
	}
	ty := "B"
	return &soTerm{op: "eq", ty: ty, args: []*soTerm{a, b}}
}

// soIte builds if c then a else b, normalised: no negated condition, equal branches collapse, boolean branches
// with a literal become and/or
func soIte(c, a, b *soTerm) *soTerm {
	if c.op == "bool" {
		if c.s == "true" {
			return a
		}
		return b
	}
	if a.String() == b.String() {
		return a
	}
	if c.op == "not" {
		return soIte(c.args[0], b, a)
	}
	if a.ty == "B" && b.ty == "B" {
		switch {
		case a.op == "bool" && a.s == "true":
			return soOr(c, b)
		case a.op == "bool" && a.s == "false":
			return soAnd(soNot(c), b)
		case b.op == "bool" && b.s == "false":
			return soAnd(c, a)
		case b.op == "bool" && b.s == "true":
			return soOr(soNot(c), a)
		}
	}
	ty := a.ty
	if ty == "K" || ty == "?" {
		if b.ty != "K" && b.ty != "?" {
			ty = b.ty
		}
	}
	return &soTerm{op: "ite", ty: ty, args: []*soTerm{c, a, b}}
}

// ---------------------------------------------------------------------------------------------------------------

type soSink struct {
	callee string
	args   []soVal
	path   *soTerm
	fn     string // the function the call is written in
}

type soFlag struct {
	Name, Short, Ty, Default string
	Field                    string
}

type soFrame struct {
	fn     string
	scopes []map[string]soVal
	rets   []soRet
	nres   int
	errRes bool // the last result is an error
}

type soRet struct {
	path  *soTerm
	vals  []soVal
	state *soState
}

type soState struct {
	frames []*soFrame
	path   *soTerm // condition of the path from the entry of the analysis
	rel    *soTerm // … from the entry of the innermost function
}

type soEval struct {
	c           *ctx
	files       map[string]*ast.File
	types       map[string]*ast.StructType // struct types of the package (cmd) and of the library
	nextID      int
	sinks       []soSink
	sinkNames   map[string]bool
	sinkMethods map[string]bool // sinks recognised by the method name alone (the receiver is a local)
	flags       []soFlag
	lost        []string
	unsupported []string
	depth       int
	cfgKeys     []string
	runE        *ast.FuncLit
	everRead    map[string]bool // a write (function|position|field) that some path reads afterwards
	quiet       bool            // reading fields while merging two states is not a read of the program
	writeSeq    int
}

// markRead: the pending write to the field (all fields when field is "") has been read
func (e *soEval) markRead(s *soStruct, field string) {
	if e.quiet {
		return
	}
	if e.everRead == nil {
		e.everRead = map[string]bool{}
	}
	if field != "" {
		if w, ok := s.pending[field]; ok {
			e.everRead[w] = true
			delete(s.pending, field)
		}
		return
	}
	for k, w := range s.pending {
		e.everRead[w] = true
		delete(s.pending, k)
	}
	for _, v := range s.f {
		if sub, ok := v.(*soStruct); ok {
			e.markRead(sub, "")
		}
	}
}

func newSoEval(c *ctx, files map[string]*ast.File) *soEval {
	e := &soEval{c: c, files: files, types: map[string]*ast.StructType{}, sinkNames: map[string]bool{}}
	collect := func(fs map[string]*ast.File, prefix string) {
		for _, f := range fs {
			for _, d := range f.Decls {
				gd, ok := d.(*ast.GenDecl)
				if !ok || gd.Tok != token.TYPE {
					continue
				}
				for _, sp := range gd.Specs {
					ts := sp.(*ast.TypeSpec)
					if st, ok := ts.Type.(*ast.StructType); ok {
						e.types[prefix+ts.Name.Name] = st
					}
				}
			}
		}
	}
	collect(c.files, "desync.")
	collect(files, "")
	return e
}

func (e *soEval) bad(format string, a ...any) {
	e.unsupported = append(e.unsupported, fmt.Sprintf(format, a...))
}

func (e *soEval) newStruct(typ string, base func(string, string) *soTerm) *soStruct {
	e.nextID++
	return &soStruct{id: e.nextID, typ: typ, f: map[string]soVal{}, base: base, pending: map[string]string{}}
}

// fieldInfo: the declared type of a field of a struct type of the package; embedded says the field is an embedded struct
func (e *soEval) fieldInfo(typ, field string) (ty ast.Expr, ok bool) {
	st := e.types[typ]
	if st == nil {
		return nil, false
	}
	for _, f := range st.Fields.List {
		if len(f.Names) == 0 {
			n := typeName(f.Type)
			if i := strings.LastIndex(n, "."); i >= 0 {
				n = n[i+1:]
			}
			if n == field {
				return f.Type, true
			}
			continue
		}
		for _, n := range f.Names {
			if n.Name == field {
				return f.Type, true
			}
		}
	}
	return nil, false
}

func (e *soEval) embedded(typ string) []string {
	var out []string
	if st := e.types[typ]; st != nil {
		for _, f := range st.Fields.List {
			if len(f.Names) == 0 {
				out = append(out, typeName(f.Type))
			}
		}
	}
	return out
}

func soTyOf(t ast.Expr) string {
	switch typeName(t) {
	case "bool":
		return "B"
	case "string":
		return "S"
	case "int", "int64", "uint", "uint64", "time.Duration", "int32", "uint32":
		return "I"
	}
	if at, ok := t.(*ast.ArrayType); ok && typeName(at.Elt) == "string" {
		return "L"
	}
	return "K"
}

func soZero(ty string) *soTerm {
	switch ty {
	case "B":
		return soBool(false)
	case "S":
		return soStr("")
	case "I":
		return &soTerm{op: "int", ty: "I", s: "0"}
	case "L":
		return soSym("nil-list")
	}
	return soNil()
}

// qualify: the key of a type in e.types as seen from struct type `from`
func (e *soEval) qualify(from string, t ast.Expr) string {
	n := typeName(t)
	if _, ok := e.types[n]; ok && !strings.HasPrefix(from, "desync.") {
		return n
	}
	if strings.HasPrefix(from, "desync.") && !strings.Contains(n, ".") {
		return "desync." + n
	}
	return n
}

// readField with promotion through embedded structs
func (e *soEval) readField(st *soStruct, field string) (soVal, bool) {
	if v, ok := st.f[field]; ok {
		e.markRead(st, field)
		return v, true
	}
	if ft, ok := e.fieldInfo(st.typ, field); ok {
		q := e.qualify(st.typ, ft)
		if _, isStruct := e.types[q]; isStruct {
			if _, isPtr := ft.(*ast.StarExpr); !isPtr {
				sub := e.newStruct(q, nil)
				if st.base != nil {
					b, f := st.base, field
					sub.base = func(n, ty string) *soTerm { return b(f+"."+n, ty) }
				}
				st.f[field] = sub
				return sub, true
			}
		}
		ty := soTyOf(ft)
		if st.base != nil {
			return st.base(field, ty), true
		}
		return soZero(ty), true
	}
	for _, emb := range e.embedded(st.typ) {
		short := emb
		if i := strings.LastIndex(short, "."); i >= 0 {
			short = short[i+1:]
		}
		q := e.qualify(st.typ, &ast.Ident{Name: emb})
		if _, known := e.types[q]; !known {
			continue
		}
		sub, _ := e.readField(st, short)
		if ss, ok := sub.(*soStruct); ok {
			if v, ok := e.readField(ss, field); ok {
				return v, true
			}
		}
	}
	if e.types[st.typ] == nil { // a type of another package: fields as assigned, otherwise unknown
		if st.base != nil {
			return st.base(field, "K"), true
		}
		return soSym("zero"), true
	}
	return nil, false
}

// ownerOf: the (possibly embedded) struct that declares field
func (e *soEval) ownerOf(st *soStruct, field string) *soStruct {
	if _, ok := e.fieldInfo(st.typ, field); ok || e.types[st.typ] == nil {
		return st
	}
	for _, emb := range e.embedded(st.typ) {
		short := emb
		if i := strings.LastIndex(short, "."); i >= 0 {
			short = short[i+1:]
		}
		if _, known := e.types[e.qualify(st.typ, &ast.Ident{Name: emb})]; !known {
			continue
		}
		sub, _ := e.readField(st, short)
		if ss, ok := sub.(*soStruct); ok {
			if o := e.ownerOf(ss, field); o != nil {
				return o
			}
		}
	}
	return nil
}

// ---------------------------------------------------------------------------------------------------------------
// cloning and merging states

type soMemo map[*soStruct]*soStruct

func (e *soEval) cloneVal(v soVal, m soMemo) soVal {
	switch t := v.(type) {
	case *soStruct:
		return e.cloneStruct(t, m)
	case *soPtr:
		return &soPtr{to: e.cloneStruct(t.to, m)}
	case *soFieldRef:
		return &soFieldRef{st: e.cloneStruct(t.st, m), name: t.name}
	case *soTuple:
		out := &soTuple{}
		for _, x := range t.vals {
			out.vals = append(out.vals, e.cloneVal(x, m))
		}
		return out
	}
	return v
}

func (e *soEval) cloneStruct(s *soStruct, m soMemo) *soStruct {
	if s == nil {
		return nil
	}
	if n, ok := m[s]; ok {
		return n
	}
	n := &soStruct{id: s.id, typ: s.typ, f: map[string]soVal{}, base: s.base, pending: map[string]string{}}
	m[s] = n
	for k, v := range s.f {
		n.f[k] = e.cloneVal(v, m)
	}
	for k, v := range s.pending {
		n.pending[k] = v
	}
	return n
}

// copyStruct: Go's value copy — a new identity
func (e *soEval) copyStruct(s *soStruct) *soStruct {
	n := e.newStruct(s.typ, s.base)
	for k, v := range s.f {
		if sub, ok := v.(*soStruct); ok {
			n.f[k] = e.copyStruct(sub)
		} else {
			n.f[k] = v
		}
	}
	e.markRead(s, "") // the whole value was read
	return n
}

func (e *soEval) copyVal(v soVal) soVal {
	if s, ok := v.(*soStruct); ok {
		return e.copyStruct(s)
	}
	return v
}

func (st *soState) clone(e *soEval) *soState {
	m := soMemo{}
	n := &soState{path: st.path, rel: st.rel}
	for _, fr := range st.frames {
		nf := &soFrame{fn: fr.fn, rets: fr.rets, nres: fr.nres, errRes: fr.errRes}
		for _, sc := range fr.scopes {
			ns := map[string]soVal{}
			for k, v := range sc {
				ns[k] = e.cloneVal(v, m)
			}
			nf.scopes = append(nf.scopes, ns)
		}
		n.frames = append(n.frames, nf)
	}
	return n
}

type soMergeMemo map[int]*soStruct

func (e *soEval) mergeVal(c *soTerm, a, b soVal, m soMergeMemo) soVal {
	switch x := a.(type) {
	case *soTerm:
		if y, ok := b.(*soTerm); ok {
			return soIte(c, x, y)
		}
	case *soStruct:
		if y, ok := b.(*soStruct); ok {
			return e.mergeStruct(c, x, y, m)
		}
	case *soPtr:
		if y, ok := b.(*soPtr); ok {
			return &soPtr{to: e.mergeStruct(c, x.to, y.to, m)}
		}
		if y, ok := b.(*soTerm); ok && y.op == "nil" {
			return x
		}
	case *soFieldRef:
		return a
	case *soClosure:
		return a
	case *soTuple:
		if y, ok := b.(*soTuple); ok && len(y.vals) == len(x.vals) {
			out := &soTuple{}
			for i := range x.vals {
				out.vals = append(out.vals, e.mergeVal(c, x.vals[i], y.vals[i], m))
			}
			return out
		}
	}
	if x, ok := a.(*soTerm); ok && x.op == "nil" {
		return b
	}
	if a == nil {
		return b
	}
	if b == nil {
		return a
	}
	if x, ok := a.(*soStruct); ok && x.typ == "copy" {
		return x
	}
	if y, ok := b.(*soStruct); ok && y.typ == "copy" {
		return y
	}
	// a struct on one side and a symbol on the other (a variable of interface type): keep a symbol
	return soIte(c, e.asTerm(a), e.asTerm(b))
}

func (e *soEval) asTerm(v soVal) *soTerm {
	switch t := v.(type) {
	case *soTerm:
		return t
	case *soStruct:
		return soSym("struct:" + t.typ)
	case *soPtr:
		return soSym("ptr:" + t.to.typ)
	case *soClosure:
		return soSym("func")
	case *soTuple:
		if len(t.vals) > 0 {
			return e.asTerm(t.vals[0])
		}
	}
	return soSym("?")
}

func (e *soEval) mergeStruct(c *soTerm, a, b *soStruct, m soMergeMemo) *soStruct {
	if a == b {
		return a
	}
	if a.id == b.id {
		if r, ok := m[a.id]; ok {
			return r
		}
	}
	n := &soStruct{id: a.id, typ: a.typ, f: map[string]soVal{}, base: a.base, pending: map[string]string{}}
	if a.id == b.id {
		m[a.id] = n
	} else {
		e.nextID++
		n.id = e.nextID
	}
	keys := map[string]bool{}
	for k := range a.f {
		keys[k] = true
	}
	for k := range b.f {
		keys[k] = true
	}
	wasQuiet := e.quiet
	e.quiet = true
	for k := range keys {
		va, _ := e.readField(a, k)
		vb, _ := e.readField(b, k)
		n.f[k] = e.mergeVal(c, va, vb, m)
		if pa := a.pending[k]; pa != "" {
			n.pending[k] = pa
		}
		if pb := b.pending[k]; pb != "" {
			n.pending[k] = pb
		}
	}
	e.quiet = wasQuiet
	return n
}

// merge: the state after a fork on c (a: c held, b: c did not)
func (e *soEval) mergeStates(c *soTerm, a, b *soState) *soState {
	m := soMergeMemo{}
	n := &soState{path: b.path, rel: b.rel}
	for i, fa := range a.frames {
		fb := b.frames[i]
		nf := &soFrame{fn: fa.fn, rets: fa.rets, nres: fa.nres, errRes: fa.errRes}
		for j, sa := range fa.scopes {
			if j >= len(fb.scopes) {
				break
			}
			sb := fb.scopes[j]
			ns := map[string]soVal{}
			for k, va := range sa {
				if vb, ok := sb[k]; ok {
					ns[k] = e.mergeVal(c, va, vb, m)
				} else {
					ns[k] = va
				}
			}
			for k, vb := range sb {
				if _, ok := sa[k]; !ok {
					ns[k] = vb
				}
			}
			nf.scopes = append(nf.scopes, ns)
		}
		n.frames = append(n.frames, nf)
	}
	return n
}

// ---------------------------------------------------------------------------------------------------------------
// environment

func (st *soState) top() *soFrame { return st.frames[len(st.frames)-1] }

func (st *soState) lookup(name string) (soVal, bool) {
	fr := st.top()
	for i := len(fr.scopes) - 1; i >= 0; i-- {
		if v, ok := fr.scopes[i][name]; ok {
			return v, true
		}
	}
	return nil, false
}

func (st *soState) define(name string, v soVal) {
	if name == "_" {
		return
	}
	fr := st.top()
	fr.scopes[len(fr.scopes)-1][name] = v
}

func (st *soState) assign(name string, v soVal) bool {
	if name == "_" {
		return true
	}
	fr := st.top()
	for i := len(fr.scopes) - 1; i >= 0; i-- {
		if _, ok := fr.scopes[i][name]; ok {
			fr.scopes[i][name] = v
			return true
		}
	}
	return false
}

func (e *soEval) pushScope(st *soState) {
	fr := st.top()
	fr.scopes = append(fr.scopes, map[string]soVal{})
}

// popScope: what was written to a field of a struct VALUE owned by the scope and never read afterwards is lost
func (e *soEval) popScope(st *soState) {
	fr := st.top()
	sc := fr.scopes[len(fr.scopes)-1]
	fr.scopes = fr.scopes[:len(fr.scopes)-1]
	names := make([]string, 0, len(sc))
	for k := range sc {
		names = append(names, k)
	}
	sort.Strings(names)
	for _, k := range names {
		if s, ok := sc[k].(*soStruct); ok {
			e.reportPending(fr.fn, s)
		}
	}
}

func (e *soEval) reportPending(fn string, s *soStruct) {
	fields := make([]string, 0, len(s.pending))
	for f := range s.pending {
		fields = append(fields, f)
	}
	sort.Strings(fields)
	for _, f := range fields {
		if e.everRead[s.pending[f]] {
			continue
		}
		msg := strings.SplitN(s.pending[f], "|", 2)[0] + ": " + s.typ + "." + f
		dup := false
		for _, l := range e.lost {
			dup = dup || l == msg
		}
		if !dup {
			e.lost = append(e.lost, msg)
		}
	}
	for _, v := range s.f {
		if sub, ok := v.(*soStruct); ok {
			e.reportPending(fn, sub)
		}
	}
}

// ---------------------------------------------------------------------------------------------------------------
// expressions

var soFlagVar = regexp.MustCompile(`^(Bool|String|Int|Int64|Uint|Uint64|Duration|StringSlice|StringArray)Var(P?)$`)

func soLitString(x ast.Expr) (string, bool) {
	if bl, ok := x.(*ast.BasicLit); ok && bl.Kind == token.STRING {
		s, err := strconv.Unquote(bl.Value)
		return s, err == nil
	}
	return "", false
}

func (e *soEval) term(st *soState, x ast.Expr) *soTerm { return e.asTerm(e.eval(st, x)) }

func (e *soEval) deref(v soVal) *soStruct {
	switch t := v.(type) {
	case *soStruct:
		return t
	case *soPtr:
		return t.to
	}
	return nil
}

func (e *soEval) eval(st *soState, x ast.Expr) soVal {
	switch t := x.(type) {
	case *ast.ParenExpr:
		return e.eval(st, t.X)
	case *ast.BasicLit:
		switch t.Kind {
		case token.STRING:
			s, _ := strconv.Unquote(t.Value)
			return soStr(s)
		case token.INT:
			return &soTerm{op: "int", ty: "I", s: t.Value}
		}
		return soOpq("K", t.Value)
	case *ast.Ident:
		switch t.Name {
		case "true":
			return soBool(true)
		case "false":
			return soBool(false)
		case "nil":
			return soNil()
		}
		if v, ok := st.lookup(t.Name); ok {
			return v
		}
		return soSym(t.Name) // a package-level name
	case *ast.SelectorExpr:
		// <anything>.Lookup("name").Changed
		if t.Sel.Name == "Changed" {
			if call, ok := t.X.(*ast.CallExpr); ok {
				if sel, ok := call.Fun.(*ast.SelectorExpr); ok && sel.Sel.Name == "Lookup" && len(call.Args) == 1 {
					if n := e.term(st, call.Args[0]); n.op == "str" { // a literal, or a local that holds one
						return &soTerm{op: "changed", ty: "B", s: n.s}
					}
				}
			}
		}
		if id, ok := t.X.(*ast.Ident); ok {
			if _, isVar := st.lookup(id.Name); !isVar {
				return soSym(id.Name + "." + t.Sel.Name)
			}
		}
		base := e.eval(st, t.X)
		if s := e.deref(base); s != nil {
			if v, ok := e.readField(s, t.Sel.Name); ok {
				return v
			}
			return soOpq("K", "field:"+s.typ+"."+t.Sel.Name)
		}
		return soOpq("K", e.asTerm(base).String()+"."+t.Sel.Name)
	case *ast.StarExpr:
		v := e.eval(st, t.X)
		if p, ok := v.(*soPtr); ok {
			return p.to
		}
		return soOpq("K", "*"+e.asTerm(v).String())
	case *ast.UnaryExpr:
		switch t.Op {
		case token.NOT:
			return soNot(e.term(st, t.X))
		case token.AND:
			if cl, ok := t.X.(*ast.CompositeLit); ok {
				v := e.eval(st, cl)
				if s, ok := v.(*soStruct); ok {
					return &soPtr{to: s}
				}
				return v
			}
			if sel, ok := t.X.(*ast.SelectorExpr); ok {
				if s := e.deref(e.eval(st, sel.X)); s != nil {
					if owner := e.ownerOf(s, sel.Sel.Name); owner != nil {
						v, _ := e.readField(owner, sel.Sel.Name)
						if sub, ok := v.(*soStruct); ok {
							return &soPtr{to: sub}
						}
						return &soFieldRef{st: owner, name: sel.Sel.Name}
					}
				}
			}
			v := e.eval(st, t.X)
			if p, ok := v.(*soPtr); ok { // a pointer to a pointer variable: what matters is the structure behind
				return p
			}
			if s, ok := v.(*soStruct); ok {
				e.markRead(s, "")
				return &soPtr{to: s}
			}
			if id, ok := t.X.(*ast.Ident); ok {
				return soOpq("K", "&"+id.Name)
			}
			return soOpq("K", "&"+e.asTerm(v).String())
		case token.ARROW:
			return soOpq("K", "recv")
		}
		return soOpq("I", t.Op.String()+e.term(st, t.X).String())
	case *ast.BinaryExpr:
		a, b := e.term(st, t.X), e.term(st, t.Y)
		switch t.Op {
		case token.EQL:
			return soEq(a, b)
		case token.NEQ:
			return soNot(soEq(a, b))
		case token.LAND:
			return soAnd(a, b)
		case token.LOR:
			return soOr(a, b)
		case token.LSS, token.GTR, token.LEQ, token.GEQ:
			return soOpq("B", a.String()+t.Op.String()+b.String())
		case token.ADD:
			ty := a.ty
			return soOpq(ty, "add("+a.String()+","+b.String()+")")
		}
		return soOpq(a.ty, a.String()+t.Op.String()+b.String())
	case *ast.TypeAssertExpr:
		return e.eval(st, t.X)
	case *ast.FuncLit:
		return &soClosure{lit: t}
	case *ast.IndexExpr:
		a := e.term(st, t.X)
		return soOpq("S", "index("+a.String()+","+e.term(st, t.Index).String()+")")
	case *ast.SliceExpr:
		a := e.term(st, t.X)
		lo, hi := "", ""
		if t.Low != nil {
			lo = e.term(st, t.Low).String()
		}
		if t.High != nil {
			hi = e.term(st, t.High).String()
		}
		return soOpq(a.ty, "slice("+a.String()+","+lo+","+hi+")")
	case *ast.CompositeLit:
		return e.compositeLit(st, t)
	case *ast.CallExpr:
		return e.call(st, t)
	case *ast.KeyValueExpr:
		return e.eval(st, t.Value)
	}
	return soOpq("K", exprString(x))
}

func (e *soEval) compositeLit(st *soState, t *ast.CompositeLit) soVal {
	tn := typeName(t.Type)
	allKV := true
	for _, el := range t.Elts {
		if _, ok := el.(*ast.KeyValueExpr); !ok {
			allKV = false
		}
	}
	_, isArr := t.Type.(*ast.ArrayType)
	_, isMap := t.Type.(*ast.MapType)
	if isArr || isMap || !allKV || (len(t.Elts) == 0 && e.types[tn] == nil && !strings.HasSuffix(tn, "Config")) {
		parts := []string{}
		for _, el := range t.Elts {
			parts = append(parts, e.asTerm(e.eval(st, el)).String())
		}
		ty := "K"
		if isArr {
			ty = "L"
		}
		return &soTerm{op: "sym", ty: ty, s: exprString(t.Type) + "{" + strings.Join(parts, ",") + "}"}
	}
	s := e.newStruct(tn, nil)
	for _, el := range t.Elts {
		kv := el.(*ast.KeyValueExpr)
		k := exprString(kv.Key)
		if k == "RunE" || k == "Run" {
			if fl, ok := kv.Value.(*ast.FuncLit); ok {
				e.runE = fl
			}
			continue
		}
		s.f[k] = e.copyVal(e.eval(st, kv.Value))
	}
	if tn == "http.Server" {
		e.recordSink(st, "http.Server", []soVal{s.f["TLSConfig"]})
	}
	return s
}

func (e *soEval) recordSink(st *soState, callee string, args []soVal) {
	snap := make([]soVal, len(args))
	m := soMemo{}
	for i, a := range args {
		if sv, ok := a.(*soStruct); ok { // handed to the constructor: read
			e.markRead(sv, "")
		}
		snap[i] = e.cloneVal(a, m)
	}
	e.sinks = append(e.sinks, soSink{callee: callee, args: snap, path: st.path, fn: st.top().fn})
}

func (e *soEval) methodDecl(typ, name string) *ast.FuncDecl {
	return e.c.funcDecl(e.files, typ, name)
}

func (e *soEval) call(st *soState, call *ast.CallExpr) soVal {
	fn := exprString(call.Fun)
	// conversions and builtins
	if id, ok := call.Fun.(*ast.Ident); ok {
		switch id.Name {
		case "len", "cap":
			return soOpq("I", "len("+e.term(st, call.Args[0]).String()+")")
		case "string", "int", "int64", "uint64", "uint", "bool":
			if len(call.Args) == 1 {
				return e.eval(st, call.Args[0])
			}
		case "new":
			if len(call.Args) == 1 {
				return &soPtr{to: e.newStruct(typeName(call.Args[0]), nil)}
			}
		case "append", "make", "panic", "copy", "delete", "close":
			parts := []string{}
			for _, a := range call.Args {
				parts = append(parts, e.term(st, a).String())
			}
			return soOpq("L", id.Name+"("+strings.Join(parts, ",")+")")
		}
		if strings.HasPrefix(id.Name, "verif") {
			return soNil()
		}
	}
	if fn == "os.Getenv" && len(call.Args) == 1 {
		if n, ok := soLitString(call.Args[0]); ok {
			return &soTerm{op: "env", ty: "S", s: n}
		}
	}
	if sel, ok := call.Fun.(*ast.SelectorExpr); ok {
		if strings.HasPrefix(sel.Sel.Name, "verif") {
			return soNil()
		}
		// flag registration: <flagset>.<T>Var[P](&target, "name", ["short",] default, usage)
		if m := soFlagVar.FindStringSubmatch(sel.Sel.Name); m != nil && len(call.Args) >= 3 {
			name, ok := soLitString(call.Args[1])
			if ok {
				ty := map[string]string{"Bool": "B", "String": "S", "StringSlice": "L", "StringArray": "L"}[m[1]]
				if ty == "" {
					ty = "I"
				}
				fl := soFlag{Name: name, Ty: ty}
				di := 2
				if m[2] == "P" {
					fl.Short, _ = soLitString(call.Args[2])
					di = 3
				}
				if di < len(call.Args) {
					fl.Default = e.term(st, call.Args[di]).String()
				}
				target := e.eval(st, call.Args[0])
				if ref, ok := target.(*soFieldRef); ok {
					ref.st.f[ref.name] = &soTerm{op: "flag", ty: ty, s: name}
					fl.Field = ref.st.typ + "." + ref.name
				} else {
					e.bad("flag %q is not bound to a field of an option structure", name)
				}
				e.flags = append(e.flags, fl)
				return soNil()
			}
		}
		// the configuration entry for a location
		if sel.Sel.Name == "GetStoreOptionsFor" && len(call.Args) == 1 {
			key := e.term(st, call.Args[0]).String()
			seen := false
			for _, k := range e.cfgKeys {
				seen = seen || k == key
			}
			if !seen {
				e.cfgKeys = append(e.cfgKeys, key)
			}
			s := e.newStruct("desync.StoreOptions", func(f, ty string) *soTerm { return &soTerm{op: "cfg", ty: ty, s: key + "/" + f} })
			return &soTuple{vals: []soVal{s, soNil()}}
		}
	}
	// sinks
	if sel, ok := call.Fun.(*ast.SelectorExpr); ok && e.sinkMethods[sel.Sel.Name] {
		args := make([]soVal, len(call.Args))
		for i, a := range call.Args {
			args[i] = e.eval(st, a)
		}
		e.recordSink(st, "."+sel.Sel.Name, args)
		return soOpq("K", "result-of:"+sel.Sel.Name)
	}
	if e.sinkNames[fn] {
		args := make([]soVal, len(call.Args))
		for i, a := range call.Args {
			args[i] = e.eval(st, a)
		}
		e.recordSink(st, fn, args)
		return &soTuple{vals: []soVal{soSym("made:" + fn), soNil()}}
	}
	// a closure
	if fl, ok := call.Fun.(*ast.FuncLit); ok {
		return e.inline(st, "func", fl.Type, fl.Body, nil, false, call.Args, true)
	}
	if id, ok := call.Fun.(*ast.Ident); ok {
		if v, isVar := st.lookup(id.Name); isVar {
			if cl, ok := v.(*soClosure); ok {
				return e.inline(st, id.Name, cl.lit.Type, cl.lit.Body, nil, false, call.Args, true)
			}
			return e.opaqueCall(st, fn, call)
		}
		// a function of the package
		if fd := e.c.funcDecl(e.files, "", id.Name); fd != nil && fd.Body != nil {
			r := e.inline(st, id.Name, fd.Type, fd.Body, nil, false, call.Args, false)
			if _, isFunc := r.(*soClosure); isFunc { // a wrapper: keep what it wraps visible
				parts := []string{}
				for _, a := range call.Args {
					parts = append(parts, e.term(st, a).String())
				}
				return soOpq("K", id.Name+"("+strings.Join(parts, ",")+")")
			}
			return r
		}
	}
	// a method of a struct type of the package
	if sel, ok := call.Fun.(*ast.SelectorExpr); ok {
		isPkg := false
		if id, ok := sel.X.(*ast.Ident); ok {
			_, isVar := st.lookup(id.Name)
			isPkg = !isVar && e.c.funcDecl(e.files, "", id.Name) == nil && id.Name != "cfg"
		}
		if !isPkg {
			recv := e.eval(st, sel.X)
			if s := e.deref(recv); s != nil {
				// the method may be declared on an embedded struct
				for _, cand := range e.methodOwners(s) {
					if fd := e.methodDecl(cand.typ, sel.Sel.Name); fd != nil && fd.Body != nil {
						_, ptrRecv := fd.Recv.List[0].Type.(*ast.StarExpr)
						return e.inlineMethod(st, fd, cand, ptrRecv, call.Args)
					}
				}
			}
		}
	}
	return e.opaqueCall(st, fn, call)
}

func (e *soEval) methodOwners(s *soStruct) []*soStruct {
	out := []*soStruct{s}
	for _, emb := range e.embedded(s.typ) {
		short := emb
		if i := strings.LastIndex(short, "."); i >= 0 {
			short = short[i+1:]
		}
		if _, known := e.types[e.qualify(s.typ, &ast.Ident{Name: emb})]; !known {
			continue
		}
		if sub, _ := e.readField(s, short); sub != nil {
			if ss, ok := sub.(*soStruct); ok {
				out = append(out, e.methodOwners(ss)...)
			}
		}
	}
	return out
}

// opaqueCall: a function the analysis does not look into.  What it is given by reference may be anything afterwards.
func (e *soEval) opaqueCall(st *soState, fn string, call *ast.CallExpr) soVal {
	parts := []string{}
	callee := fn
	if sel, ok := call.Fun.(*ast.SelectorExpr); ok {
		if id, ok := sel.X.(*ast.Ident); ok {
			if _, isVar := st.lookup(id.Name); isVar {
				callee = e.asTerm(e.eval(st, sel.X)).String() + "." + sel.Sel.Name
			}
		} else {
			callee = e.asTerm(e.eval(st, sel.X)).String() + "." + sel.Sel.Name
		}
	}
	for _, a := range call.Args {
		v := e.eval(st, a)
		switch t := v.(type) {
		case *soPtr:
			e.havoc(t.to, callee)
		case *soFieldRef:
			t.st.f[t.name] = soOpq("K", "set-by:"+callee)
		case *soStruct:
			e.markRead(t, "")
		}
		parts = append(parts, e.asTerm(v).String())
	}
	ty := "K"
	switch {
	case strings.HasPrefix(fn, "strings.Has"), strings.HasPrefix(fn, "strings.Contains"), strings.HasSuffix(fn, ".IsNotExist"):
		ty = "B"
	case strings.HasPrefix(fn, "strings.Trim"), fn == "path.Base", fn == "path.Dir", fn == "filepath.Dir", fn == "filepath.Base":
		ty = "S"
	case fn == "strings.Split":
		ty = "L"
	}
	return soOpq(ty, callee+"("+strings.Join(parts, ",")+")")
}

func (e *soEval) havoc(s *soStruct, by string) {
	if st := e.types[s.typ]; st != nil {
		for _, f := range st.Fields.List {
			for _, n := range f.Names {
				s.f[n.Name] = soOpq(soTyOf(f.Type), "set-by:"+by+":"+n.Name)
			}
		}
	}
	e.markRead(s, "")
}

func (e *soEval) inlineMethod(st *soState, fd *ast.FuncDecl, recv *soStruct, ptrRecv bool, args []ast.Expr) soVal {
	var rv soVal
	if ptrRecv {
		rv = &soPtr{to: recv}
	} else {
		rv = e.copyStruct(recv)
	}
	name := ""
	if len(fd.Recv.List[0].Names) == 1 {
		name = fd.Recv.List[0].Names[0].Name
	}
	return e.inline(st, typeName(fd.Recv.List[0].Type)+"."+fd.Name.Name, fd.Type, fd.Body, map[string]soVal{name: rv}, false, args, false)
}

// inline executes a function of the package on the caller's arguments.  Results: one value, or a tuple.
func (e *soEval) inline(st *soState, name string, ft *ast.FuncType, body *ast.BlockStmt, pre map[string]soVal, _ bool, args []ast.Expr, closure bool) soVal {
	if e.depth > 12 {
		e.bad("call depth exceeded at %s", name)
		return soOpq("K", "deep:"+name)
	}
	// arguments are evaluated in the caller
	var argv []soVal
	for _, a := range args {
		argv = append(argv, e.copyVal(e.eval(st, a)))
	}
	return e.inlineVals(st, name, ft, body, pre, argv, closure)
}

func (e *soEval) inlineVals(st *soState, name string, ft *ast.FuncType, body *ast.BlockStmt, pre map[string]soVal, argv []soVal, closure bool) soVal {
	fr := &soFrame{fn: name, scopes: []map[string]soVal{{}}}
	if closure { // a closure sees the variables of the function it is written in
		cur := st.top()
		fr.scopes = append(append([]map[string]soVal{}, cur.scopes...), map[string]soVal{})
		fr.fn = cur.fn
	}
	if ft.Results != nil {
		for _, r := range ft.Results.List {
			n := len(r.Names)
			if n == 0 {
				n = 1
			}
			fr.nres += n
			fr.errRes = typeName(r.Type) == "error"
		}
	}
	top := fr.scopes[len(fr.scopes)-1]
	for k, v := range pre {
		if k != "" && k != "_" {
			top[k] = v
		}
	}
	i := 0
	for _, p := range ft.Params.List {
		_, variadic := p.Type.(*ast.Ellipsis)
		for _, n := range p.Names {
			switch {
			case variadic:
				parts := []string{}
				for ; i < len(argv); i++ {
					parts = append(parts, e.asTerm(argv[i]).String())
				}
				if len(parts) == 1 {
					top[n.Name] = &soTerm{op: "opq", ty: "L", s: parts[0]}
				} else {
					top[n.Name] = soOpq("L", "list("+strings.Join(parts, ",")+")")
				}
			case i < len(argv):
				top[n.Name] = argv[i]
				i++
			default:
				top[n.Name] = soOpq("K", "param:"+n.Name)
			}
		}
		if len(p.Names) == 0 {
			i++
		}
	}
	// named results
	if ft.Results != nil {
		for _, r := range ft.Results.List {
			for _, n := range r.Names {
				q := typeName(r.Type)
				if _, ok := e.types[q]; ok {
					top[n.Name] = e.newStruct(q, nil)
				} else {
					top[n.Name] = soZero(soTyOf(r.Type))
				}
			}
		}
	}
	st.frames = append(st.frames, fr)
	savedPath, savedRel := st.path, st.rel
	st.rel = soBool(true)
	e.depth++
	terminated := e.block(st, body.List, false)
	e.depth--
	if !terminated { // falling off the end
		var vals []soVal
		if ft.Results != nil {
			for _, r := range ft.Results.List {
				for _, n := range r.Names {
					v, _ := st.lookup(n.Name)
					vals = append(vals, v)
				}
			}
		}
		fr = st.top()
		fr.rets = append(fr.rets, soRet{path: st.rel, vals: vals, state: st.clone(e)})
	}
	fr = st.top()
	rets := fr.rets
	// the state the caller goes on with: the states at the return statements that do not report an error, merged
	var good []soRet
	for _, r := range rets {
		if !e.isErrorReturn(fr, r) {
			good = append(good, r)
		}
	}
	if len(good) == 0 {
		good = rets
	}
	var merged *soState
	var vals []soVal
	for k := len(good) - 1; k >= 0; k-- {
		r := good[k]
		if merged == nil {
			merged, vals = r.state, r.vals
			continue
		}
		merged = e.mergeStates(r.path, r.state, merged)
		nv := make([]soVal, len(vals))
		m := soMergeMemo{}
		for j := range vals {
			if j < len(r.vals) {
				nv[j] = e.mergeVal(r.path, r.vals[j], vals[j], m)
			}
		}
		vals = nv
	}
	if merged == nil {
		e.bad("%s does not return", name)
		st.frames = st.frames[:len(st.frames)-1]
		st.path, st.rel = savedPath, savedRel
		return soNil()
	}
	// leave the frame: lost writes of by-value parameters and locals
	mfr := merged.top()
	for len(mfr.scopes) > 0 {
		if closure && len(mfr.scopes) <= len(st.frames[len(st.frames)-2].scopes) {
			break
		}
		// what is returned was read
		e.popScope(merged)
	}
	if closure { // assignments to the enclosing function's variables persist
		outer := merged.frames[len(merged.frames)-2]
		outer.scopes = mfr.scopes
	}
	st.frames = merged.frames[:len(merged.frames)-1]
	st.path, st.rel = savedPath, savedRel
	switch len(vals) {
	case 0:
		return soNil()
	case 1:
		return vals[0]
	}
	return &soTuple{vals: vals}
}

func (e *soEval) isErrorReturn(fr *soFrame, r soRet) bool {
	if !fr.errRes || len(r.vals) == 0 {
		return false
	}
	last, ok := r.vals[len(r.vals)-1].(*soTerm)
	if !ok {
		return false
	}
	if last.op == "nil" {
		return false
	}
	if len(r.vals) >= 2 {
		first, ok := r.vals[0].(*soTerm)
		return ok && first.op == "nil"
	}
	return last.op != "nil" && !strings.HasPrefix(last.s, "made:")
}

// ---------------------------------------------------------------------------------------------------------------
// statements

func (e *soEval) block(st *soState, list []ast.Stmt, scope bool) (terminated bool) {
	if scope {
		e.pushScope(st)
		defer func() {
			if !terminated {
				e.popScope(st)
			}
		}()
	}
	for _, s := range list {
		if e.stmt(st, s) {
			return true
		}
	}
	return false
}

func (e *soEval) setLvalue(st *soState, l ast.Expr, v soVal, define bool, where string) {
	switch t := l.(type) {
	case *ast.Ident:
		if define {
			if _, ok := st.top().scopes[len(st.top().scopes)-1][t.Name]; ok || t.Name == "_" {
				st.assign(t.Name, v)
			} else {
				st.define(t.Name, v)
			}
			return
		}
		if !st.assign(t.Name, v) {
			st.define(t.Name, v) // a package-level variable
		}
	case *ast.SelectorExpr:
		var target *soStruct
		base := e.eval(st, t.X)
		target = e.deref(base)
		if target == nil {
			// a field of something the analysis holds as a symbol (the copy a type assertion yields, …): give the
			// variable a structure so that the write can be followed
			if id, ok := t.X.(*ast.Ident); ok {
				if bt, ok := base.(*soTerm); ok {
					s := e.newStruct("copy", func(f, ty string) *soTerm { return soOpq(ty, bt.String()+"."+f) })
					st.assign(id.Name, s)
					target = s
				}
			}
		}
		if target == nil {
			return
		}
		owner := e.ownerOf(target, t.Sel.Name)
		if owner == nil {
			owner = target
		}
		owner.f[t.Sel.Name] = v
		e.writeSeq++
		owner.pending[t.Sel.Name] = fmt.Sprintf("%s|%d|%d", where, l.Pos(), e.writeSeq)
	case *ast.StarExpr:
		if p, ok := e.eval(st, t.X).(*soPtr); ok {
			if s, ok := v.(*soStruct); ok {
				p.to.f = s.f
			}
		}
	case *ast.IndexExpr:
	default:
		e.bad("assignment to %s", exprString(l))
	}
}

func (e *soEval) stmt(st *soState, s ast.Stmt) (terminated bool) {
	switch t := s.(type) {
	case *ast.EmptyStmt:
	case *ast.ExprStmt:
		e.eval(st, t.X)
	case *ast.DeclStmt:
		gd, ok := t.Decl.(*ast.GenDecl)
		if !ok || gd.Tok != token.VAR {
			return false
		}
		for _, sp := range gd.Specs {
			vs := sp.(*ast.ValueSpec)
			for i, n := range vs.Names {
				var v soVal
				switch {
				case i < len(vs.Values):
					v = e.copyVal(e.eval(st, vs.Values[i]))
				case vs.Type != nil && e.types[typeName(vs.Type)] != nil:
					if _, ptr := vs.Type.(*ast.StarExpr); ptr {
						v = soNil()
					} else {
						v = e.newStruct(typeName(vs.Type), nil)
					}
				case vs.Type != nil:
					v = soZero(soTyOf(vs.Type))
				default:
					v = soNil()
				}
				st.define(n.Name, v)
			}
		}
	case *ast.AssignStmt:
		where := st.top().fn
		define := t.Tok == token.DEFINE
		if t.Tok != token.ASSIGN && t.Tok != token.DEFINE { // += and the like
			for _, l := range t.Lhs {
				e.setLvalue(st, l, soOpq(e.term(st, l).ty, "updated:"+e.term(st, l).String()+t.Tok.String()+e.term(st, t.Rhs[0]).String()), false, where)
			}
			return false
		}
		if len(t.Lhs) == len(t.Rhs) {
			vals := make([]soVal, len(t.Rhs))
			for i, r := range t.Rhs {
				vals[i] = e.copyVal(e.eval(st, r))
				if tu, ok := vals[i].(*soTuple); ok && len(tu.vals) > 0 {
					vals[i] = tu.vals[0]
				}
			}
			for i, l := range t.Lhs {
				e.setLvalue(st, l, vals[i], define, where)
			}
			return false
		}
		if len(t.Rhs) == 1 {
			var vals []soVal
			switch r := t.Rhs[0].(type) {
			case *ast.TypeAssertExpr: // v, ok := x.(T)
				vals = []soVal{e.copyVal(e.eval(st, r.X)), soOpq("B", "is:"+typeName(r.Type)+"("+e.term(st, r.X).String()+")")}
			default:
				v := e.eval(st, t.Rhs[0])
				if tu, ok := v.(*soTuple); ok {
					vals = tu.vals
				} else {
					tt := e.asTerm(v)
					for i := range t.Lhs {
						vals = append(vals, soOpq("K", fmt.Sprintf("result%d:%s", i, tt.String())))
					}
				}
			}
			for i, l := range t.Lhs {
				var v soVal = soNil()
				if i < len(vals) {
					v = e.copyVal(vals[i])
				}
				e.setLvalue(st, l, v, define, where)
			}
			return false
		}
		e.bad("assignment %d := %d", len(t.Lhs), len(t.Rhs))
	case *ast.IncDecStmt:
	case *ast.DeferStmt:
	case *ast.GoStmt:
		e.eval(st, t.Call)
	case *ast.ReturnStmt:
		fr := st.top()
		var vals []soVal
		if len(t.Results) == 1 && fr.nres > 1 {
			if tu, ok := e.eval(st, t.Results[0]).(*soTuple); ok {
				vals = tu.vals
			}
		}
		if vals == nil {
			for _, r := range t.Results {
				v := e.eval(st, r)
				if tu, ok := v.(*soTuple); ok && len(tu.vals) > 0 {
					v = tu.vals[0]
				}
				if sv, ok := v.(*soStruct); ok {
					e.markRead(sv, "")
				}
				vals = append(vals, v)
			}
		}
		fr = st.top()
		fr.rets = append(fr.rets, soRet{path: st.rel, vals: vals, state: st.clone(e)})
		return true
	case *ast.BlockStmt:
		return e.block(st, t.List, true)
	case *ast.IfStmt:
		e.pushScope(st)
		if t.Init != nil {
			e.stmt(st, t.Init)
		}
		c := e.term(st, t.Cond)
		var elseList []ast.Stmt
		if t.Else != nil {
			elseList = []ast.Stmt{t.Else}
		}
		term := e.fork(st, c, t.Body.List, elseList)
		if !term {
			e.popScope(st)
		}
		return term
	case *ast.SwitchStmt:
		e.pushScope(st)
		if t.Init != nil {
			e.stmt(st, t.Init)
		}
		var tag *soTerm
		if t.Tag != nil {
			tag = e.term(st, t.Tag)
		}
		var clauses []*ast.CaseClause
		var def *ast.CaseClause
		for _, cs := range t.Body.List {
			cc := cs.(*ast.CaseClause)
			if cc.List == nil {
				def = cc
			} else {
				clauses = append(clauses, cc)
			}
			for _, b := range cc.Body {
				if br, ok := b.(*ast.BranchStmt); ok && br.Tok == token.FALLTHROUGH {
					e.bad("fallthrough")
				}
			}
		}
		term := e.switchFrom(st, tag, clauses, def, 0)
		if !term {
			e.popScope(st)
		}
		return term
	case *ast.TypeSwitchStmt:
		// every clause under a condition of its own; the bound variable is the value switched on
		var bind string
		var x ast.Expr
		switch a := t.Assign.(type) {
		case *ast.AssignStmt:
			bind = a.Lhs[0].(*ast.Ident).Name
			x = a.Rhs[0].(*ast.TypeAssertExpr).X
		case *ast.ExprStmt:
			x = a.X.(*ast.TypeAssertExpr).X
		}
		v := e.eval(st, x)
		for _, cs := range t.Body.List {
			cc := cs.(*ast.CaseClause)
			c := soOpq("B", "type-is:"+exprString2(cc.List)+"("+e.asTerm(v).String()+")")
			body := cc.Body
			if bind != "" {
				pre := &ast.AssignStmt{Lhs: []ast.Expr{&ast.Ident{Name: bind}}, Tok: token.DEFINE, Rhs: []ast.Expr{x}}
				body = append([]ast.Stmt{pre}, body...)
			}
			if e.fork(st, c, body, nil) {
				return true
			}
		}
	case *ast.ForStmt:
		e.pushScope(st)
		if t.Init != nil {
			e.stmt(st, t.Init)
		}
		c := soOpq("B", "loop@"+st.top().fn)
		e.fork(st, c, t.Body.List, nil)
		e.popScope(st)
	case *ast.RangeStmt:
		e.pushScope(st)
		r := e.term(st, t.X)
		if t.Tok == token.DEFINE {
			if id, ok := t.Key.(*ast.Ident); ok && t.Key != nil {
				st.define(id.Name, soOpq("I", "index-in("+r.String()+")"))
			}
			if id, ok := t.Value.(*ast.Ident); ok && t.Value != nil {
				st.define(id.Name, soOpq("S", "elem("+r.String()+")"))
			}
		}
		c := soOpq("B", "loop@"+st.top().fn)
		e.fork(st, c, t.Body.List, nil)
		e.popScope(st)
	case *ast.BranchStmt:
		if t.Tok == token.CONTINUE || t.Tok == token.BREAK {
			return false // loops are executed once: the rest of the body is skipped conservatively by nobody
		}
		e.bad("%s", t.Tok)
	case *ast.LabeledStmt:
		return e.stmt(st, t.Stmt)
	case *ast.SelectStmt, *ast.SendStmt:
	default:
		e.bad("statement %T", s)
	}
	return false
}

func exprString2(es []ast.Expr) string {
	parts := []string{}
	for _, x := range es {
		parts = append(parts, exprString(x))
	}
	return strings.Join(parts, "|")
}

func (e *soEval) switchFrom(st *soState, tag *soTerm, clauses []*ast.CaseClause, def *ast.CaseClause, k int) bool {
	if k == len(clauses) {
		if def != nil {
			return e.block(st, def.Body, true)
		}
		return false
	}
	cc := clauses[k]
	c := soBool(false)
	for _, x := range cc.List {
		v := e.term(st, x)
		if tag != nil {
			c = soOr(c, soEq(tag, v))
		} else {
			c = soOr(c, v)
		}
	}
	return e.forkF(st, c, func(s *soState) bool { return e.block(s, cc.Body, true) },
		func(s *soState) bool { return e.switchFrom(s, tag, clauses, def, k+1) })
}

func (e *soEval) fork(st *soState, c *soTerm, thenList, elseList []ast.Stmt) bool {
	return e.forkF(st, c, func(s *soState) bool { return e.block(s, thenList, true) },
		func(s *soState) bool {
			if len(elseList) == 0 {
				return false
			}
			return e.block(s, elseList, true)
		})
}

// forkF runs both continuations on copies of the state and merges; a branch that returned contributes nothing
func (e *soEval) forkF(st *soState, c *soTerm, thenF, elseF func(*soState) bool) bool {
	if c.op == "bool" {
		if c.s == "true" {
			return thenF(st)
		}
		return elseF(st)
	}
	a, b := st.clone(e), st.clone(e)
	a.path, a.rel = soAnd(st.path, c), soAnd(st.rel, c)
	b.path, b.rel = soAnd(st.path, soNot(c)), soAnd(st.rel, soNot(c))
	ta := thenF(a)
	tb := elseF(b)
	switch {
	case ta && tb:
	case ta:
		st.frames, st.path, st.rel = b.frames, b.path, b.rel
	case tb:
		st.frames, st.path, st.rel = a.frames, a.path, a.rel
	default:
		m := e.mergeStates(c, a, b)
		st.frames = m.frames
	}
	e.copyRets(st, a, b) // the returns recorded in the two copies belong to the same frames
	return ta && tb
}

// copyRets: the return lists of the two copies, concatenated in program order (then-branch first); the copies
// started from the same list

func (e *soEval) copyRets(st, a, b *soState) {
	for i, fr := range st.frames {
		if i >= len(a.frames) || i >= len(b.frames) {
			continue
		}
		ra, rb := a.frames[i].rets, b.frames[i].rets
		base := len(ra)
		if len(rb) < base {
			base = len(rb)
		}
		// the common prefix
		n := 0
		for n < base && ra[n].state == rb[n].state {
			n++
		}
		out := append([]soRet{}, ra...)
		out = append(out, rb[n:]...)
		fr.rets = out
	}
}
