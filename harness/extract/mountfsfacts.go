package main

import (
	"fmt"
	"go/ast"
	"go/token"
	"math/big"
	"strings"
)

// mount-index.go / mount-sparse.go / sparse-file.go / cmd/desync/mount-index.go / cmd/desync/cat.go: the FUSE node layer
// (what Getattr, Open and Read put into their replies), the way the mount ends (Close before Unmount, what Close does),
// the system calls behind WriteState and the re-initialisation in NewSparseFile, and cat's offset/length arithmetic.
// Everything is extracted by meaning: parameters and locals are replaced by their roles (the reply struct, the buffer,
// the count and the error returned by the reader), single-assignment locals are looked through, verif… hook calls are
// skipped; what is not recognised is printed as "other:<source text>", which no obligation accepts.

// go-fuse / syscall constants the node layer uses (github.com/hanwen/go-fuse/v2 v2.2.0 fuse/types.go, Linux)
var mfsKnown = map[string]int64{
	"fuse.S_IFREG": 0o100000, "syscall.S_IFREG": 0o100000, "fuse.S_IFDIR": 0o040000, "syscall.S_IFDIR": 0o040000,
	"fuse.S_IFLNK": 0o120000, "syscall.S_IFLNK": 0o120000,
	"fuse.FOPEN_DIRECT_IO": 1, "fuse.FOPEN_KEEP_CACHE": 2, "fuse.FOPEN_NONSEEKABLE": 4, "fuse.FOPEN_CACHE_DIR": 8,
	"fuse.FOPEN_STREAM": 16, "fs.OK": 0, "fuse.OK": 0,
}

func (c *ctx) mfsConst(e ast.Expr) (*big.Int, bool) {
	switch t := e.(type) {
	case *ast.SelectorExpr:
		if v, ok := mfsKnown[exprString(t)]; ok {
			return big.NewInt(v), true
		}
		return nil, false
	case *ast.ParenExpr:
		return c.mfsConst(t.X)
	case *ast.CallExpr:
		if len(t.Args) == 1 {
			switch exprString(t.Fun) {
			case "uint32", "uint64", "int", "uint", "int64", "int32", "syscall.Errno":
				return c.mfsConst(t.Args[0])
			}
		}
		return nil, false
	case *ast.BinaryExpr:
		x, ok1 := c.mfsConst(t.X)
		y, ok2 := c.mfsConst(t.Y)
		if !ok1 || !ok2 {
			return nil, false
		}
		r := new(big.Int)
		switch t.Op {
		case token.OR:
			return r.Or(x, y), true
		case token.ADD:
			return r.Add(x, y), true
		case token.AND:
			return r.And(x, y), true
		case token.SHL:
			return r.Lsh(x, uint(y.Uint64())), true
		}
		return nil, false
	}
	return c.evalConst(e)
}

func mfsErrno(e ast.Expr) string {
	s := exprString(e)
	switch s {
	case "fs.OK", "fuse.OK", "0", "syscall.Errno(0)":
		return "OK"
	}
	if strings.HasPrefix(s, "syscall.E") {
		return strings.TrimPrefix(s, "syscall.")
	}
	return "other:" + s
}

var mfsIntTypes = map[string]bool{"uint64": true, "int64": true, "int": true, "uint": true, "uint32": true, "int32": true,
	"uint16": true, "int16": true, "uint8": true, "int8": true}

// look through a single-assignment local
func (c *ctx) mfsLet(e ast.Expr) ast.Expr {
	for i := 0; i < 4; i++ {
		id, ok := e.(*ast.Ident)
		if !ok {
			break
		}
		d, ok := c.lets[id.Name]
		if !ok {
			break
		}
		e = d
	}
	if p, ok := e.(*ast.ParenExpr); ok {
		return c.mfsLet(p.X)
	}
	return e
}

// the source of a node's size: `<recv>.idx.Length()` directly, or a field of the node that OnAdd fills with a Length()
// method returning `<x>.idx.Length()`
func (c *ctx) mfsSizeSrc(e ast.Expr, recv, nodeType string, depth int) string {
	e = c.mfsLet(e)
	if depth > 4 {
		return "other:" + exprString(e)
	}
	if call, ok := e.(*ast.CallExpr); ok && len(call.Args) == 0 {
		if se, ok := call.Fun.(*ast.SelectorExpr); ok && se.Sel.Name == "Length" {
			x := exprString(se.X)
			if strings.HasSuffix(x, ".idx") || strings.HasSuffix(x, ".Idx") || x == "idx" {
				return "idx.Length"
			}
			// a Length method of another type of the package: follow it if it is a plain `return <expr>`
			for _, f := range c.files {
				for _, d := range f.Decls {
					fd, ok := d.(*ast.FuncDecl)
					if !ok || fd.Name.Name != "Length" || fd.Recv == nil || fd.Body == nil || len(fd.Body.List) != 1 {
						continue
					}
					if typeName(fd.Recv.List[0].Type) == "Index" {
						continue
					}
					if rs, ok := fd.Body.List[0].(*ast.ReturnStmt); ok && len(rs.Results) == 1 {
						if r := c.mfsSizeSrc(rs.Results[0], "", "", depth+1); r == "idx.Length" {
							return r
						}
					}
				}
			}
		}
	}
	if se, ok := e.(*ast.SelectorExpr); ok && exprString(se.X) == recv && nodeType != "" {
		// a field of the node: the value OnAdd puts into it
		var val ast.Expr
		n := 0
		for _, f := range c.files {
			walk(f, func(nd ast.Node) bool {
				cl, ok := nd.(*ast.CompositeLit)
				if !ok || typeName(cl.Type) != nodeType {
					return true
				}
				for _, el := range cl.Elts {
					if kv, ok := el.(*ast.KeyValueExpr); ok && exprString(kv.Key) == se.Sel.Name {
						val = kv.Value
						n++
					}
				}
				return true
			})
		}
		if n == 1 {
			return c.mfsSizeSrc(val, "", "", depth+1)
		}
	}
	return "other:" + exprString(e)
}

type mfsLit struct {
	src  string // seek / read / readat / open
	kind string // err / eof
	neg  bool
}

// classify a condition over the error of a recognised call; unknown conditions yield ok=false
func mfsCond(e ast.Expr, errSrc map[string]string) (lits []mfsLit, ok bool) {
	switch t := e.(type) {
	case *ast.ParenExpr:
		return mfsCond(t.X, errSrc)
	case *ast.BinaryExpr:
		if t.Op == token.LAND {
			a, ok1 := mfsCond(t.X, errSrc)
			b, ok2 := mfsCond(t.Y, errSrc)
			return append(a, b...), ok1 && ok2
		}
		if t.Op == token.NEQ || t.Op == token.EQL {
			x, y := exprString(t.X), exprString(t.Y)
			if _, isErr := errSrc[y]; isErr {
				x, y = y, x
			}
			src, isErr := errSrc[x]
			if !isErr {
				return nil, false
			}
			switch y {
			case "nil":
				return []mfsLit{{src, "err", t.Op == token.EQL}}, true
			case "io.EOF":
				return []mfsLit{{src, "eof", t.Op == token.NEQ}}, true
			}
		}
	}
	return nil, false
}

func mfsPathName(path [][]mfsLit, negated []bool) string {
	var pos []mfsLit
	negEOF := false
	for i, lits := range path {
		if negated[i] {
			// the negation of a single literal is a literal; the negation of a conjunction only says "not that case"
			if len(lits) == 1 {
				l := lits[0]
				l.neg = !l.neg
				if l.neg && l.kind == "eof" {
					negEOF = true
				} else if !l.neg {
					pos = append(pos, l)
				}
			}
			continue
		}
		for _, l := range lits {
			if l.neg {
				if l.kind == "eof" {
					negEOF = true
				}
				continue
			}
			pos = append(pos, l)
		}
	}
	if len(pos) == 0 {
		return "else"
	}
	hasEOF := map[string]bool{}
	for _, l := range pos {
		if l.kind == "eof" {
			hasEOF[l.src] = true
		}
	}
	var names []string
	seen := map[string]bool{}
	for _, l := range pos {
		if l.kind == "err" && hasEOF[l.src] {
			continue
		}
		n := l.src + "." + l.kind
		if !seen[n] {
			seen[n] = true
			names = append(names, n)
		}
	}
	s := strings.Join(names, "&&")
	if negEOF && !strings.Contains(s, ".eof") {
		s += "&&!eof"
	}
	return s
}

// the returns of a Read method: (case, data handed to the kernel, errno)
func (c *ctx) mfsReadReturns(fd *ast.FuncDecl, readerCalls map[string]string) (out [][3]string, ok bool) {
	if fd == nil || fd.Body == nil {
		return nil, false
	}
	c.useLets(fd)
	// the buffer: the parameter of type []byte
	buf := ""
	for _, p := range fd.Type.Params.List {
		if exprString(p.Type) == "[]byte" && len(p.Names) == 1 {
			buf = p.Names[0].Name
		}
	}
	errSrc := map[string]string{} // error variable -> source
	cnt := map[string]bool{}      // the count returned by the reader's Read/ReadAt
	note := func(as *ast.AssignStmt) {
		if len(as.Rhs) != 1 || len(as.Lhs) != 2 {
			return
		}
		call, isCall := as.Rhs[0].(*ast.CallExpr)
		if !isCall {
			return
		}
		se, isSel := call.Fun.(*ast.SelectorExpr)
		if !isSel {
			return
		}
		src, known := readerCalls[se.Sel.Name]
		if !known {
			return
		}
		errSrc[exprString(as.Lhs[1])] = src
		if src != "seek" {
			cnt[exprString(as.Lhs[0])] = true
		}
	}
	data := func(e ast.Expr) string {
		e = c.mfsLet(e)
		if exprString(e) == "nil" {
			return "nil"
		}
		call, isCall := e.(*ast.CallExpr)
		if !isCall || exprString(call.Fun) != "fuse.ReadResultData" || len(call.Args) != 1 {
			return "other:" + exprString(e)
		}
		a := c.mfsLet(call.Args[0])
		if exprString(a) == buf {
			return "dest"
		}
		if sl, isSl := a.(*ast.SliceExpr); isSl && exprString(sl.X) == buf && (sl.Low == nil || exprString(sl.Low) == "0") && sl.High != nil && cnt[exprString(sl.High)] && sl.Max == nil {
			return "dest[:n]"
		}
		return "other:" + exprString(a)
	}
	good := true
	var block func(list []ast.Stmt, path [][]mfsLit, neg []bool)
	block = func(list []ast.Stmt, path [][]mfsLit, neg []bool) {
		for _, st := range list {
			switch t := st.(type) {
			case *ast.AssignStmt:
				note(t)
			case *ast.IfStmt:
				if as, isAs := t.Init.(*ast.AssignStmt); isAs {
					note(as)
				}
				lits, known := mfsCond(t.Cond, errSrc)
				if !known {
					hasRet := false
					walk(t, func(n ast.Node) bool {
						if _, r := n.(*ast.ReturnStmt); r {
							hasRet = true
						}
						return true
					})
					if hasRet {
						good = false
					}
					continue
				}
				block(t.Body.List, append(append([][]mfsLit{}, path...), lits), append(append([]bool{}, neg...), false))
				if t.Else != nil {
					if eb, isBlock := t.Else.(*ast.BlockStmt); isBlock {
						block(eb.List, append(append([][]mfsLit{}, path...), lits), append(append([]bool{}, neg...), true))
					} else if ei, isIf := t.Else.(*ast.IfStmt); isIf {
						block([]ast.Stmt{ei}, append(append([][]mfsLit{}, path...), lits), append(append([]bool{}, neg...), true))
					}
				}
				if n := len(t.Body.List); n > 0 {
					if _, ends := t.Body.List[n-1].(*ast.ReturnStmt); ends {
						path = append(append([][]mfsLit{}, path...), lits)
						neg = append(append([]bool{}, neg...), true)
					}
				}
			case *ast.ReturnStmt:
				if len(t.Results) == 2 {
					out = append(out, [3]string{mfsPathName(path, neg), data(t.Results[0]), mfsErrno(t.Results[1])})
				} else if len(t.Results) == 1 {
					// `return f.read(dest, off)`: handled by the caller
					out = append(out, [3]string{mfsPathName(path, neg), "call:" + exprString(t.Results[0]), ""})
				}
				return
			}
		}
	}
	block(fd.Body.List, nil, nil)
	return out, good && len(out) > 0
}

func tripleList(l [][3]string) string {
	var s []string
	for _, t := range l {
		s = append(s, fmt.Sprintf("(%q, %q, %q)", t[0], t[1], t[2]))
	}
	return strings.Join(s, ", ")
}

// the names of the calls made in a function body, in source order, restricted to a set (verif hooks skipped);
// deferred calls are listed at the end with the prefix "defer:"
func (c *ctx) mfsCalls(body ast.Node, keep func(name, full string) string) []string {
	var out, deferred []string
	inDefer := map[*ast.CallExpr]bool{}
	walk(body, func(n ast.Node) bool {
		switch t := n.(type) {
		case *ast.DeferStmt:
			inDefer[t.Call] = true
		case *ast.CallExpr:
			full := exprString(t.Fun)
			name := full
			if se, ok := t.Fun.(*ast.SelectorExpr); ok {
				name = se.Sel.Name
			}
			if strings.HasPrefix(name, "verif") {
				return true
			}
			if k := keep(name, full); k != "" {
				if inDefer[t] {
					deferred = append(deferred, "defer:"+k)
				} else {
					out = append(out, k)
				}
			}
		}
		return true
	})
	return append(out, deferred...)
}

func (c *ctx) nodeFacts(prefix, nodeType string) (mode int64, conv []string, src string, flags int64, openRets []string, ok bool) {
	ok = true
	mode, flags = -1, -1
	src = "other:none"
	ga := c.funcDecl(c.files, nodeType, "Getattr")
	if ga == nil || ga.Recv == nil || len(ga.Recv.List[0].Names) != 1 || len(ga.Type.Params.List) < 3 {
		ok = false
	} else {
		c.useLets(ga)
		recv := ga.Recv.List[0].Names[0].Name
		outName := ""
		for _, p := range ga.Type.Params.List {
			if strings.HasSuffix(exprString(p.Type), "AttrOut") && len(p.Names) == 1 {
				outName = p.Names[0].Name
			}
		}
		walk(ga.Body, func(n ast.Node) bool {
			as, isAs := n.(*ast.AssignStmt)
			if !isAs || len(as.Lhs) != 1 || len(as.Rhs) != 1 || as.Tok != token.ASSIGN {
				return true
			}
			switch exprString(as.Lhs[0]) {
			case outName + ".Mode", outName + ".Attr.Mode":
				if v, good := c.mfsConst(c.mfsLet(as.Rhs[0])); good {
					mode = v.Int64()
				}
			case outName + ".Size", outName + ".Attr.Size":
				e := c.mfsLet(as.Rhs[0])
				for {
					call, isCall := e.(*ast.CallExpr)
					if !isCall || len(call.Args) != 1 || !mfsIntTypes[exprString(call.Fun)] {
						break
					}
					conv = append(conv, exprString(call.Fun))
					e = c.mfsLet(call.Args[0])
				}
				src = c.mfsSizeSrc(e, recv, nodeType, 0)
			}
			return true
		})
		// the errno Getattr returns: every return must be OK
		walk(ga.Body, func(n ast.Node) bool {
			if rs, isRet := n.(*ast.ReturnStmt); isRet && (len(rs.Results) != 1 || mfsErrno(rs.Results[0]) != "OK") {
				ok = false
			}
			return true
		})
	}
	op := c.funcDecl(c.files, nodeType, "Open")
	if op == nil {
		ok = false
	} else {
		c.useLets(op)
		walk(op.Body, func(n ast.Node) bool {
			rs, isRet := n.(*ast.ReturnStmt)
			if !isRet || len(rs.Results) != 3 {
				return true
			}
			fl := "other:" + exprString(rs.Results[1])
			if v, good := c.mfsConst(c.mfsLet(rs.Results[1])); good {
				fl = v.String()
				if mfsErrno(rs.Results[2]) == "OK" {
					flags = v.Int64()
				}
			}
			openRets = append(openRets, fl+":"+mfsErrno(rs.Results[2]))
			return true
		})
	}
	if mode < 0 || flags < 0 {
		ok = false
	}
	_ = prefix
	return
}

func (c *ctx) mountFSFacts() {
	c.lean.WriteString("\n/-! the FUSE node layer and the mount command (C09 / C10): mount-index.go, mount-sparse.go, sparse-file.go, cmd/desync/mount-index.go, cmd/desync/cat.go -/\n")
	for _, nt := range []struct{ prefix, node string }{{"mountIndex", "indexFile"}, {"mountSparse", "sparseIndexFile"}} {
		mode, conv, src, flags, openRets, ok := c.nodeFacts(nt.prefix, nt.node)
		c.site(nt.prefix+"_node", ok)
		if mode < 0 {
			mode = 0
		}
		if flags < 0 {
			flags = 1 << 40 // not a value any obligation accepts
		}
		fmt.Fprintf(&c.lean, "/-- `%s.Getattr` / `Open`: (out.Mode, conversions around the size (outermost first), source of the size, flags returned by Open) -/\n", nt.node)
		fmt.Fprintf(&c.lean, "def %sNodeFacts : Nat × List String × String × Nat := (%d, [%s], %q, %d)\n", nt.prefix, mode, quoteList(conv), src, flags)
		fmt.Fprintf(&c.lean, "/-- `%s.Open`: flags:errno of every return -/\ndef %sOpenReturns : List String := [%s]\n", nt.node, nt.prefix, quoteList(openRets))
		c.facts[nt.prefix+"NodeFacts"] = map[string]any{"mode": mode, "sizeConv": conv, "sizeSrc": src, "openFlags": flags, "openReturns": openRets}
	}

	// the Read methods.  indexFile.Read hands over to indexFileHandle.read (an existing fact lists its calls)
	idxRets, ok1 := c.mfsReadReturns(c.funcDecl(c.files, "indexFileHandle", "read"), map[string]string{"Seek": "seek", "Read": "read"})
	fileRets, ok0 := c.mfsReadReturns(c.funcDecl(c.files, "indexFile", "Read"), map[string]string{})
	forwards := ok0 && len(fileRets) == 1 && strings.HasPrefix(fileRets[0][1], "call:") && strings.Contains(fileRets[0][1], ".read(")
	c.site("mountIndex_readReturns", ok1 && forwards)
	fmt.Fprintf(&c.lean, "/-- `indexFileHandle.read`: (case, data, errno) of every return -/\ndef mountIndexReadReturns : List (String × String × String) := [%s]\n", tripleList(idxRets))
	spRets, ok2 := c.mfsReadReturns(c.funcDecl(c.files, "sparseIndexFile", "Read"), map[string]string{"ReadAt": "readat"})
	c.site("mountSparse_readReturns", ok2)
	fmt.Fprintf(&c.lean, "/-- `sparseIndexFile.Read`: (case, data, errno) of every return -/\ndef mountSparseReadReturns : List (String × String × String) := [%s]\n", tripleList(spRets))
	c.facts["mountIndexReadReturns"] = idxRets
	c.facts["mountSparseReadReturns"] = spRets

	// OnAdd: one persistent child of mode S_IFREG under the name FName
	for _, nt := range []struct{ prefix, root string }{{"mountIndex", "IndexMountFS"}, {"mountSparse", "SparseMountFS"}} {
		var onAdd []string
		if fd := c.funcDecl(c.files, nt.root, "OnAdd"); fd != nil && fd.Recv != nil && len(fd.Recv.List[0].Names) == 1 {
			recv := fd.Recv.List[0].Names[0].Name
			walk(fd.Body, func(n ast.Node) bool {
				call, isCall := n.(*ast.CallExpr)
				if !isCall {
					return true
				}
				se, isSel := call.Fun.(*ast.SelectorExpr)
				if !isSel || exprString(se.X) != recv {
					return true
				}
				switch se.Sel.Name {
				case "NewPersistentInode", "NewInode":
					m := "other"
					if len(call.Args) == 3 {
						if cl, isCl := call.Args[2].(*ast.CompositeLit); isCl {
							for _, el := range cl.Elts {
								if kv, isKv := el.(*ast.KeyValueExpr); isKv && exprString(kv.Key) == "Mode" {
									if v, good := c.mfsConst(kv.Value); good {
										m = v.String()
									}
								}
							}
						}
					}
					onAdd = append(onAdd, se.Sel.Name+":"+m)
				case "AddChild":
					if len(call.Args) == 3 {
						onAdd = append(onAdd, "AddChild:"+strings.TrimPrefix(exprString(call.Args[0]), recv+".")+":"+exprString(call.Args[2]))
					}
				}
				return true
			})
		}
		c.site(nt.prefix+"_onAdd", len(onAdd) > 0)
		fmt.Fprintf(&c.lean, "/-- `%s.OnAdd`: the inode it creates and the name it adds it under -/\ndef %sOnAdd : List String := [%s]\n", nt.root, nt.prefix, quoteList(onAdd))
		c.facts[nt.prefix+"OnAdd"] = onAdd
	}

	// how the mount ends: MountIndex's goroutine waits for the context, closes the file system (state save), unmounts
	var unmount []string
	if fd := c.funcDecl(c.files, "", "MountIndex"); fd != nil {
		unmount = c.mfsCalls(fd.Body, func(name, full string) string {
			switch name {
			case "Mount", "Done", "Close", "Unmount", "Wait", "WriteState":
				return name
			}
			return ""
		})
	}
	c.site("mountIndex_unmount", len(unmount) > 0)
	fmt.Fprintf(&c.lean, "/-- `MountIndex`: Mount, then (goroutine) ctx.Done, Close, Unmount; Wait -/\ndef mountIndexUnmountOrder : List String := [%s]\n", quoteList(unmount))
	c.facts["mountIndexUnmountOrder"] = unmount
	var spClose, idxClose []string
	keepAll := func(name, full string) string { return name }
	if fd := c.funcDecl(c.files, "SparseMountFS", "Close"); fd != nil {
		spClose = c.mfsCalls(fd.Body, keepAll)
	}
	fdIdxClose := c.funcDecl(c.files, "IndexMountFS", "Close")
	if fdIdxClose != nil {
		idxClose = c.mfsCalls(fdIdxClose.Body, keepAll)
	}
	c.site("mountFS_close", c.funcDecl(c.files, "SparseMountFS", "Close") != nil && fdIdxClose != nil)
	fmt.Fprintf(&c.lean, "def mountSparseCloseCalls : List String := [%s]\ndef mountIndexCloseCalls : List String := [%s]\n", quoteList(spClose), quoteList(idxClose))
	c.facts["mountSparseCloseCalls"] = spClose

	// SparseFile.WriteState / sparseFileLoader.writeState: the system calls behind a state save
	var ws, lws []string
	if fd := c.funcDecl(c.files, "SparseFile", "WriteState"); fd != nil {
		ws = c.mfsCalls(fd.Body, func(name, full string) string {
			switch name {
			case "Create", "OpenFile", "CreateTemp", "TempFile", "Rename", "Sync", "Close", "Write", "WriteFile", "writeState", "Truncate", "Remove":
				return name
			}
			return ""
		})
	}
	if fd := c.funcDecl(c.files, "sparseFileLoader", "writeState"); fd != nil {
		lws = c.mfsCalls(fd.Body, func(name, full string) string {
			switch name {
			case "Lock", "Unlock", "RLock", "RUnlock", "Write", "Data", "Sync":
				return name
			}
			return ""
		})
	}
	c.site("sparse_writeState", len(ws) > 0 && len(lws) > 0)
	fmt.Fprintf(&c.lean, "/-- `SparseFile.WriteState`: file operations in order -/\ndef sparseWriteStateOps : List String := [%s]\n/-- `sparseFileLoader.writeState` -/\ndef sparseLoaderWriteStateOps : List String := [%s]\n", quoteList(ws), quoteList(lws))
	c.facts["sparseWriteStateOps"] = ws
	c.facts["sparseLoaderWriteStateOps"] = lws

	// NewSparseFile: the order of the steps that touch the two files when the cache file is (re-)initialised
	var nsf []string
	if fd := c.funcDecl(c.files, "", "NewSparseFile"); fd != nil {
		nsf = c.mfsCalls(fd.Body, func(name, full string) string {
			switch name {
			case "OpenFile", "Stat", "Open", "loadState", "ReadFile", "WriteState", "Truncate", "preloadChunksFromState", "Remove", "Rename", "Sync":
				return name
			}
			return ""
		})
	}
	c.site("sparse_newSparseFile", len(nsf) > 0)
	fmt.Fprintf(&c.lean, "/-- `NewSparseFile`: the steps that touch the cache file and the state file, in order -/\ndef newSparseFileOps : List String := [%s]\n", quoteList(nsf))
	c.facts["newSparseFileOps"] = nsf

	// cmd/desync/mount-index.go: who calls WriteState (the SIGHUP handler) and that MountIndex gets the file system
	var cmdOps []string
	if fd := c.funcDecl(c.cmd, "", "runMountIndex"); fd != nil {
		cmdOps = c.mfsCalls(fd.Body, func(name, full string) string {
			switch name {
			case "NewSparseMountFS", "NewIndexMountFS", "Notify", "WriteState", "MountIndex", "Close":
				if name == "Close" && !strings.HasPrefix(full, "s.") {
					return ""
				}
				return name
			}
			return ""
		})
	}
	c.site("cmd_mountIndex", len(cmdOps) > 0)
	fmt.Fprintf(&c.lean, "/-- `runMountIndex`: the calls that concern the mount and the saved state -/\ndef cmdMountIndexOps : List String := [%s]\n", quoteList(cmdOps))
	c.facts["cmdMountIndexOps"] = cmdOps

	// cmd/desync/cat.go: Seek(offset, SeekStart); length > 0 ? CopyN(length) : Copy
	var cat []string
	if fd := c.funcDecl(c.cmd, "", "runCat"); fd != nil {
		c.useLets(fd)
		walk(fd.Body, func(n ast.Node) bool {
			switch t := n.(type) {
			case *ast.IfStmt:
				if be, isBin := t.Cond.(*ast.BinaryExpr); isBin && strings.HasSuffix(exprString(be.X), ".length") {
					cat = append(cat, "if:length"+be.Op.String()+exprString(be.Y))
					if t.Else == nil {
						cat = append(cat, "noelse")
					}
				}
			case *ast.CallExpr:
				switch exprString(t.Fun) {
				case "readSeeker.Seek":
					if len(t.Args) == 2 {
						a := exprString(c.mfsLet(t.Args[0]))
						a = strings.TrimSuffix(strings.TrimPrefix(a, "int64("), ")")
						cat = append(cat, "Seek:"+strings.TrimPrefix(a, "opt.")+":"+exprString(t.Args[1]))
					}
				case "io.CopyN":
					if len(t.Args) == 3 {
						a := exprString(c.mfsLet(t.Args[2]))
						a = strings.TrimSuffix(strings.TrimPrefix(a, "int64("), ")")
						cat = append(cat, "CopyN:"+strings.TrimPrefix(a, "opt."))
					}
				case "io.Copy":
					cat = append(cat, "Copy")
				}
			}
			return true
		})
	}
	c.site("cmd_cat", len(cat) > 0)
	fmt.Fprintf(&c.lean, "/-- `runCat`: the seek and the copy -/\ndef cmdCatOps : List String := [%s]\n", quoteList(cat))
	c.facts["cmdCatOps"] = cat
}
