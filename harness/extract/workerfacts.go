package main

import (
	"fmt"
	"go/ast"
	"strings"
)

// chop.go / copy.go: what a worker does with one job (C06): every failing call is followed by
// `return err`, and the chunk re-read from the file is checked against the index ID
func (c *ctx) workerFacts() {
	c.lean.WriteString("\n/-! chop.go / copy.go: the workers (C06) -/\n")
	// readChunkFromFile: the skipVerify argument of NewChunkWithID
	skip := "unknown"
	if fd := c.funcDecl(c.files, "", "readChunkFromFile"); fd != nil {
		walk(fd.Body, func(n ast.Node) bool {
			if call, ok := n.(*ast.CallExpr); ok && exprString(call.Fun) == "NewChunkWithID" && len(call.Args) == 3 {
				skip = exprString(call.Args[2])
			}
			return true
		})
	}
	c.site("chop_rereadVerified", skip != "unknown")
	fmt.Fprintf(&c.lean, "/-- `readChunkFromFile` builds the chunk with `NewChunkWithID(c.ID, b, %s)`: verified against the index ID -/\n", skip)
	fmt.Fprintf(&c.lean, "def chopRereadVerified : Bool := %v\n", skip == "false")
	c.facts["chopRereadVerified"] = skip
	// every `x, err := call(...)` / `err := call(...)` inside the worker closure is directly
	// followed by `if err != nil { return err }`
	for _, fn := range []string{"Copy", "ChopFile"} {
		var calls []string
		allReturned := true
		if fd := c.funcDecl(c.files, "", fn); fd != nil {
			walk(fd.Body, func(n ast.Node) bool {
				lit, ok := n.(*ast.FuncLit)
				if !ok {
					return true
				}
				walk(lit.Body, func(m ast.Node) bool {
					blk, ok := m.(*ast.BlockStmt)
					if !ok {
						return true
					}
					for i, st := range blk.List {
						var rhs ast.Expr
						errAssigned := false
						switch t := st.(type) {
						case *ast.AssignStmt:
							if len(t.Rhs) == 1 {
								rhs = t.Rhs[0]
								for _, l := range t.Lhs {
									if exprString(l) == "err" {
										errAssigned = true
									}
								}
							}
						case *ast.IfStmt: // `if err := call(); err != nil { return err }`
							if as, ok := t.Init.(*ast.AssignStmt); ok && len(as.Rhs) == 1 && exprString(t.Cond) == "err!=nil" {
								if call, ok := as.Rhs[0].(*ast.CallExpr); ok {
									calls = append(calls, shortCall(call))
									if !returnsErr(t.Body) {
										allReturned = false
									}
								}
							}
							continue
						}
						call, ok := rhs.(*ast.CallExpr)
						if !ok || !errAssigned {
							continue
						}
						calls = append(calls, shortCall(call))
						okNext := false
						if i+1 < len(blk.List) {
							if ifs, ok := blk.List[i+1].(*ast.IfStmt); ok && exprString(ifs.Cond) == "err!=nil" && returnsErr(ifs.Body) {
								okNext = true
							}
						}
						if !okNext {
							allReturned = false
						}
					}
					return true
				})
				return false
			})
		}
		calls = expandWorkerCalls(calls, &allReturned, 0)
		c.site("worker_"+fn, len(calls) > 0)
		fmt.Fprintf(&c.lean, "/-- `%s` worker: the calls that can fail, in source order -/\ndef worker%sCalls : List String := [%s]\n", fn, fn, quoteList(calls))
		fmt.Fprintf(&c.lean, "/-- every one of them is directly followed by `if err != nil { return err }` -/\ndef worker%sReturnsEveryError : Bool := %v\n", fn, allReturned && len(calls) > 0)
		c.facts["worker"+fn+"Calls"] = calls
	}
}

// expandWorkerCall: a call to a local helper whose body is again a sequence of "call, return its error" steps is
// replaced by those steps (what `ChopFile`'s worker does with one job may live in a helper of its own)
func expandWorkerCalls(calls []string, all *bool, depth int) []string {
	var out []string
	for _, name := range calls {
		fds := localFuncs[name]
		if depth >= 2 || len(fds) != 1 || name == "readChunkFromFile" {
			out = append(out, name)
			continue
		}
		var inner []string
		ok := true
		blk := fds[0].Body
		for i, st := range blk.List {
			switch t := st.(type) {
			case *ast.AssignStmt:
				if len(t.Rhs) != 1 {
					continue
				}
				call, isCall := t.Rhs[0].(*ast.CallExpr)
				errAssigned := false
				for _, l := range t.Lhs {
					if exprString(l) == "err" {
						errAssigned = true
					}
				}
				if !isCall || !errAssigned {
					continue
				}
				inner = append(inner, shortCall(call))
				next := false
				if i+1 < len(blk.List) {
					if ifs, isIf := blk.List[i+1].(*ast.IfStmt); isIf && exprString(ifs.Cond) == "err!=nil" && returnsErr(ifs.Body) {
						next = true
					}
				}
				ok = ok && next
			case *ast.IfStmt:
				if as, isAs := t.Init.(*ast.AssignStmt); isAs && len(as.Rhs) == 1 && exprString(t.Cond) == "err!=nil" {
					if call, isCall := as.Rhs[0].(*ast.CallExpr); isCall {
						inner = append(inner, shortCall(call))
						ok = ok && returnsErr(t.Body)
					}
				}
			case *ast.ReturnStmt: // `return s.StoreChunk(chunk)`: the error goes straight to the caller
				if len(t.Results) == 1 {
					if call, isCall := t.Results[0].(*ast.CallExpr); isCall {
						inner = append(inner, shortCall(call))
					}
				}
			}
		}
		if len(inner) == 0 {
			out = append(out, name)
			continue
		}
		*all = *all && ok
		out = append(out, expandWorkerCalls(inner, all, depth+1)...)
	}
	return out
}

func shortCall(call *ast.CallExpr) string {
	s := exprString(call.Fun)
	if i := strings.LastIndex(s, "."); i >= 0 {
		return s[i+1:]
	}
	return s
}

func returnsErr(b *ast.BlockStmt) bool {
	// leading calls to the verif hooks do not count
	list := b.List
	for len(list) > 0 {
		es, ok := list[0].(*ast.ExprStmt)
		if !ok {
			break
		}
		call, ok := es.X.(*ast.CallExpr)
		if !ok || !strings.HasPrefix(exprString(call.Fun), "verif") {
			break
		}
		list = list[1:]
	}
	if len(list) != 1 {
		return false
	}
	rs, ok := list[0].(*ast.ReturnStmt)
	return ok && len(rs.Results) == 1 && exprString(rs.Results[0]) == "err"
}
