package main

import (
	"fmt"
	"go/ast"
	"go/token"
	"strings"
)

// remotessh.go: the session pool of RemoteSSH (C14, C03).  What the constructor, GetChunk, HasChunk and Close do with the
// buffered channel that holds the sessions, statement by statement and by meaning: local names are normalised, locals that
// only rename another value are looked through, verif* hooks are skipped, and a statement the walk does not know appears
// as "other:…", which the model does not know either.  A function whose overall form is not understood is refused
// (empty list, site flag false).
type poolWalk struct {
	pool, cnt string              // the fields of RemoteSSH: the channel and the int counter
	store     string              // the variable that holds the store (receiver / the constructor's local)
	sess      string              // the variable that holds the session taken from the pool / just started
	alias     map[string]ast.Expr // x -> e for locals defined once by `x := <variable or field>` and never written again
}

func poolHook(st ast.Stmt) bool {
	var call *ast.CallExpr
	switch t := st.(type) {
	case *ast.ExprStmt:
		call, _ = t.X.(*ast.CallExpr)
	case *ast.DeferStmt:
		call = t.Call
	}
	if call == nil {
		return false
	}
	name := exprString(call.Fun)
	name = name[strings.LastIndex(name, ".")+1:]
	return strings.HasPrefix(name, "verif") || strings.HasPrefix(name, "Verif")
}

// live drops what does nothing: hooks, `var x T` without a value, renaming locals
func (w *poolWalk) live(l []ast.Stmt) (out []ast.Stmt) {
	for _, st := range l {
		skip := poolHook(st)
		switch t := st.(type) {
		case *ast.DeclStmt:
			skip = t.Decl.(*ast.GenDecl).Tok == token.VAR
			for _, sp := range t.Decl.(*ast.GenDecl).Specs {
				vs, ok := sp.(*ast.ValueSpec)
				skip = skip && ok && len(vs.Values) == 0
			}
		case *ast.AssignStmt:
			skip = w.alias[exprString(t.Lhs[0])] == t.Rhs[0]
		}
		if !skip {
			out = append(out, st)
		}
	}
	return
}

// scan collects the renaming locals of a function
func (w *poolWalk) scan(fd *ast.FuncDecl) {
	w.alias, w.sess = map[string]ast.Expr{}, ""
	writes, cand := map[string]int{}, map[string]ast.Expr{}
	walk(fd.Body, func(n ast.Node) bool {
		switch t := n.(type) {
		case *ast.AssignStmt:
			for _, l := range t.Lhs {
				writes[rootIdent(l)]++
			}
			if t.Tok == token.DEFINE && len(t.Lhs) == 1 && len(t.Rhs) == 1 && rootIdent(t.Rhs[0]) != "" {
				cand[exprString(t.Lhs[0])] = t.Rhs[0]
			}
		case *ast.IncDecStmt:
			writes[rootIdent(t.X)]++
		case *ast.RangeStmt:
			writes[rootIdent(t.Key)]++
			writes[rootIdent(t.Value)]++
		case *ast.UnaryExpr:
			if t.Op == token.AND {
				writes[rootIdent(t.X)] += 2 // may be written through the pointer
			}
		}
		return true
	})
	for x, e := range cand {
		if writes[x] == 1 && writes[rootIdent(e)] <= 1 && x != "_" {
			w.alias[x] = e
		}
	}
}

func (w *poolWalk) resolve(e ast.Expr) ast.Expr {
	for i := 0; i < 8; i++ {
		if p, ok := e.(*ast.ParenExpr); ok {
			e = p.X
		} else if id, ok := e.(*ast.Ident); ok && w.alias[id.Name] != nil {
			e = w.alias[id.Name]
		}
	}
	return e
}

// the variable e stands for ("" = not a plain variable)
func (w *poolWalk) varOf(e ast.Expr) string {
	if id, ok := w.resolve(e).(*ast.Ident); ok {
		return id.Name
	}
	return ""
}

// e is <store>.<field>
func (w *poolWalk) isField(e ast.Expr, field string) bool {
	se, ok := w.resolve(e).(*ast.SelectorExpr)
	return ok && se.Sel.Name == field && w.varOf(se.X) == w.store
}

// x.<method>(args…): the variable the method is called on
func (w *poolWalk) methodCall(e ast.Expr, method string) (on string, args []ast.Expr, ok bool) {
	if call, isCall := e.(*ast.CallExpr); isCall {
		if se, isSel := call.Fun.(*ast.SelectorExpr); isSel && se.Sel.Name == method {
			return w.varOf(se.X), call.Args, true
		}
	}
	return "", nil, false
}

// poolOp: a receive (`x := <-ch`) or a send; ok=false for any other statement, named "other:<kind>"
func (w *poolWalk) poolOp(st ast.Stmt) (op string, ok bool) {
	switch t := st.(type) {
	case *ast.AssignStmt:
		ue, isUn := t.Rhs[0].(*ast.UnaryExpr)
		if !isUn || ue.Op != token.ARROW || len(t.Lhs) != 1 {
			break
		}
		switch x := exprString(t.Lhs[0]); {
		case !w.isField(ue.X, w.pool):
			return "other:take-not-from-pool", true
		case w.sess != "" || (t.Tok != token.DEFINE && t.Tok != token.ASSIGN):
			return "other:take-again", true
		case x == "_" || x != rootIdent(t.Lhs[0]):
			return "other:take-dropped", true
		default:
			w.sess = x
			return "take", true
		}
	case *ast.SendStmt:
		switch {
		case !w.isField(t.Chan, w.pool):
			return "other:send", true
		case w.sess != "" && w.varOf(t.Value) == w.sess:
			return "put", true
		}
		return "other:put-wrong-value", true
	}
	return "other:" + strings.ToLower(strings.TrimSuffix(strings.TrimPrefix(fmt.Sprintf("%T", st), "*ast."), "Stmt")), false
}

// norm prints an expression with the given variables renamed and `<store>.<counter>` written as `n`
func (w *poolWalk) norm(e ast.Expr, ren map[string]string) string {
	switch t := e.(type) {
	case *ast.Ident:
		if r, ok := ren[t.Name]; ok {
			return r
		}
	case *ast.SelectorExpr:
		if w.isField(t, w.cnt) {
			return "n"
		}
		return w.norm(t.X, ren) + "." + t.Sel.Name
	case *ast.BinaryExpr:
		return w.norm(t.X, ren) + t.Op.String() + w.norm(t.Y, ren)
	}
	return exprString(e)
}

// loopFn walks a function made of one `for` loop: "for:<init>;<cond>;<post>" (the loop variable called i), then the body.
// `outer` / `inner` name the statements around / inside the loop that are no pool operations ("" = not known).
func (w *poolWalk) loopFn(stmts []ast.Stmt, outer, inner func(ast.Stmt) string) (out []string, ok bool) {
	step := func(st ast.Stmt, f func(ast.Stmt) string) {
		op, isPoolOp := w.poolOp(st)
		if s := f(st); !isPoolOp && s != "" {
			op = s
		}
		out = append(out, op)
	}
	loops := 0
	for _, st := range stmts {
		t, isLoop := st.(*ast.ForStmt)
		if !isLoop {
			step(st, outer)
			continue
		}
		ren := map[string]string{}
		part := func(s ast.Stmt) string {
			switch p := s.(type) {
			case nil:
				return ""
			case *ast.IncDecStmt:
				return w.norm(p.X, ren) + p.Tok.String()
			case *ast.AssignStmt:
				if len(p.Lhs) == 1 && len(p.Rhs) == 1 {
					if p.Tok == token.DEFINE {
						ren[exprString(p.Lhs[0])] = "i"
					}
					return w.norm(p.Lhs[0], ren) + strings.TrimPrefix(p.Tok.String(), ":") + w.norm(p.Rhs[0], nil)
				}
			}
			return "?"
		}
		head := "for:" + part(t.Init) + ";"
		if t.Cond != nil {
			head += w.norm(t.Cond, ren)
		}
		out = append(out, head+";"+part(t.Post))
		loops++
		w.sess = ""
		for _, b := range w.live(t.Body.List) {
			step(b, inner)
		}
	}
	return out, loops == 1
}

func isNil(e ast.Expr) bool { return exprString(e) == "nil" }

// `v != nil` (ne) or `v == nil` (!ne), either way round
func nilTest(e ast.Expr) (v string, ne, ok bool) {
	be, ok := e.(*ast.BinaryExpr)
	if !ok || (be.Op != token.NEQ && be.Op != token.EQL) {
		return "", false, false
	}
	x, y := be.X, be.Y
	if isNil(x) {
		x, y = y, x
	}
	_, ok = x.(*ast.Ident)
	return exprString(x), be.Op == token.NEQ, ok && isNil(y) && !isNil(x)
}

// poolMethod returns the method of RemoteSSH (with a named receiver) and prepares the walk for it
func (c *ctx) poolMethod(w *poolWalk, name string) *ast.FuncDecl {
	fd := c.funcDecl(c.files, "RemoteSSH", name)
	if fd == nil || fd.Body == nil || w.pool == "" || w.cnt == "" || len(fd.Recv.List[0].Names) != 1 {
		return nil
	}
	w.store = fd.Recv.List[0].Names[0].Name
	w.scan(fd)
	return fd
}

// sshpoolFields finds the pool (the one chan field) and the counter (the one int field) of RemoteSSH by type
func (c *ctx) sshpoolFields() *poolWalk {
	w := &poolWalk{}
	chans, ints := 0, 0
	for _, f := range c.files {
		walk(f, func(n ast.Node) bool {
			ts, ok := n.(*ast.TypeSpec)
			if !ok || ts.Name.Name != "RemoteSSH" {
				return true
			}
			if st, ok := ts.Type.(*ast.StructType); ok {
				for _, fl := range st.Fields.List {
					for _, fn := range fl.Names {
						if _, ok := fl.Type.(*ast.ChanType); ok {
							w.pool = fn.Name
							chans++
						} else if exprString(fl.Type) == "int" {
							w.cnt = fn.Name
							ints++
						}
					}
				}
			}
			return false
		})
	}
	if chans != 1 || ints != 1 { // which field is the pool / the counter would be a guess
		w.pool, w.cnt = "", ""
	}
	return w
}

func (c *ctx) sshpoolFacts() {
	c.lean.WriteString("\n/-! remotessh.go: the session pool of RemoteSSH (C14, C03) -/\n")
	w := c.sshpoolFields()
	var users []string
	emit := func(name, doc string, l []string, found bool) {
		if !found {
			l = nil
			if name == "HasChunk" {
				l = []string{"unrecognised"}
			}
		}
		c.site("sshpool_"+name, found)
		fmt.Fprintf(&c.lean, "/-- %s -/\ndef sshpool%s : List String := [%s]\n", doc, name, quoteList(l))
		c.facts["sshpool"+name] = l
	}
	l, ok := c.sshpoolGetChunk(w)
	emit("GetChunk", "`RemoteSSH.GetChunk`: what happens to the session taken from the pool, in execution order", l, ok)
	l, ok = c.sshpoolHasChunk(w)
	emit("HasChunk", "`RemoteSSH.HasChunk`: the result for each error GetChunk may return (nil / ChunkMissing / another)", l, ok)
	l, ok = c.sshpoolClose(w)
	emit("Close", "`RemoteSSH.Close`: how many sessions it takes out of the pool and which goodbye error it returns", l, ok)
	l, ok = c.sshpoolCtor(w)
	emit("Ctor", "`NewRemoteSSHStore`: capacity of the pool, the counter, and the loop that starts the sessions", l, ok)

	// every function that has to do with RemoteSSH (receiver, literal, parameter, …) and mentions the pool field
	for _, f := range c.files {
		for _, d := range f.Decls {
			fd, isFunc := d.(*ast.FuncDecl)
			ours, uses := false, false
			walk(d, func(n ast.Node) bool {
				switch t := n.(type) {
				case *ast.Ident:
					ours = ours || t.Name == "RemoteSSH"
				case *ast.SelectorExpr:
					uses = uses || t.Sel.Name == w.pool
				case *ast.KeyValueExpr:
					uses = uses || exprString(t.Key) == w.pool
				}
				return true
			})
			if isFunc && ours && uses {
				users = append(users, fd.Name.Name)
			}
		}
	}
	sortStrings(users)
	fmt.Fprintf(&c.lean, "/-- the functions that mention the pool field `%s` of RemoteSSH -/\ndef sshpoolPoolUsers : List String := [%s]\n", w.pool, quoteList(users))
	c.facts["sshpoolPoolUsers"] = users
}

func (c *ctx) sshpoolGetChunk(w *poolWalk) (out []string, found bool) {
	fd := c.poolMethod(w, "GetChunk")
	id := paramOfType(fd, "ChunkID")
	if fd == nil || id == "" || fd.Type.Params.NumFields() != 1 {
		return nil, false
	}
	request := func(e ast.Expr) string { // "" = not a RequestChunk call
		on, args, ok := w.methodCall(e, "RequestChunk")
		switch {
		case !ok:
			return ""
		case w.sess == "" || on != w.sess:
			return "other:request-wrong-session"
		case len(args) != 1 || w.varOf(args[0]) != id:
			return "other:request-wrong-arg"
		}
		return "request"
	}
	var res []string             // the variables that hold the results of RequestChunk
	var deferred []*ast.SendStmt // `defer func() { <pool> <- x }()`: runs when the function returns
	for _, st := range w.live(fd.Body.List) {
		op, isPoolOp := w.poolOp(st)
		switch t := st.(type) {
		case *ast.AssignStmt:
			if r := request(t.Rhs[0]); !isPoolOp && r != "" && len(t.Lhs) == 2 {
				if op = r; r == "request" {
					res = []string{exprString(t.Lhs[0]), exprString(t.Lhs[1])}
				}
			}
		case *ast.DeferStmt:
			if lit, ok := t.Call.Fun.(*ast.FuncLit); ok && len(t.Call.Args) == 0 {
				if b := w.live(lit.Body.List); len(b) == 1 {
					if s, ok := b[0].(*ast.SendStmt); ok {
						deferred = append(deferred, s)
						continue
					}
				}
			}
		case *ast.ReturnStmt:
			if len(t.Results) == 1 {
				if r := request(t.Results[0]); r != "" {
					if out = append(out, r); r == "request" {
						op = "return-result"
					}
				}
			} else if len(t.Results) == 2 && len(res) == 2 && res[0] != "_" && res[1] != "_" &&
				exprString(t.Results[0]) == res[0] && exprString(t.Results[1]) == res[1] {
				op = "return-result"
			}
			for i := len(deferred) - 1; i >= 0; i-- {
				put, _ := w.poolOp(deferred[i])
				out = append(out, put)
			}
		}
		out = append(out, op)
	}
	return out, true
}

// HasChunk is evaluated once for each kind of error GetChunk may return
type hasChunkEval struct {
	w        *poolWalk
	id, kind string
	err      string          // the variable that holds GetChunk's error
	oks      map[string]bool // ok of `_, ok := err.(ChunkMissing)`
	bad      bool
}

func (c *ctx) sshpoolHasChunk(w *poolWalk) (out []string, found bool) {
	fd := c.poolMethod(w, "HasChunk")
	id := paramOfType(fd, "ChunkID")
	for _, kind := range []string{"nil", "ChunkMissing", "other"} {
		ev := &hasChunkEval{w: w, id: id, kind: kind, oks: map[string]bool{}}
		if fd == nil || id == "" {
			return nil, false
		}
		r, done := ev.run(fd.Body.List)
		if !done || ev.bad || ev.err == "" {
			return nil, false
		}
		out = append(out, kind+"→"+r)
	}
	return out, true
}

// simple statement: `_, err := <receiver>.GetChunk(id)` (once) or `_, ok := err.(ChunkMissing)`
func (ev *hasChunkEval) simple(st ast.Stmt) bool {
	as, ok := st.(*ast.AssignStmt)
	if !ok || len(as.Lhs) != 2 || len(as.Rhs) != 1 || as.Tok != token.DEFINE {
		return false
	}
	if on, args, ok := ev.w.methodCall(as.Rhs[0], "GetChunk"); ok {
		ok = on == ev.w.store && len(args) == 1 && ev.w.varOf(args[0]) == ev.id && ev.err == "" && exprString(as.Lhs[1]) != "_"
		ev.err = exprString(as.Lhs[1])
		return ok
	}
	ta, ok := as.Rhs[0].(*ast.TypeAssertExpr)
	if ok && ev.err != "" && exprString(ta.X) == ev.err && exprString(ta.Type) == "ChunkMissing" {
		ev.oks[exprString(as.Lhs[1])] = true
		return true
	}
	return false
}

func (ev *hasChunkEval) cond(e ast.Expr) (val, ok bool) {
	if v, ne, ok := nilTest(e); ok && v == ev.err {
		return ne == (ev.kind != "nil"), true
	}
	if ue, isNot := e.(*ast.UnaryExpr); isNot && ue.Op == token.NOT {
		v, ok := ev.cond(ue.X)
		return !v, ok
	}
	return ev.kind == "ChunkMissing", ev.oks[exprString(e)]
}

// run executes a statement list; done = it returned, with the result printed as "<true|false>,<nil|err>"
func (ev *hasChunkEval) run(stmts []ast.Stmt) (res string, done bool) {
	for _, st := range ev.w.live(stmts) {
		var next []ast.Stmt // the branch taken
		switch t := st.(type) {
		case *ast.ReturnStmt:
			if len(t.Results) == 2 {
				a, b := exprString(t.Results[0]), exprString(t.Results[1])
				if b == ev.err {
					b = "err"
				}
				if (a == "true" || a == "false") && (b == "nil" || b == "err") {
					return a + "," + b, true
				}
			}
			ev.bad = true
		case *ast.AssignStmt:
			ev.bad = !ev.simple(st)
		case *ast.IfStmt:
			if t.Init != nil && !ev.simple(t.Init) {
				ev.bad = true
				break
			}
			v, ok := ev.cond(t.Cond)
			if ev.bad = !ok; v {
				next = t.Body.List
			} else if t.Else != nil {
				next = []ast.Stmt{t.Else}
			}
		case *ast.BlockStmt:
			next = t.List
		case *ast.TypeSwitchStmt: // `switch err.(type) { case nil: … case ChunkMissing: … default: … }`
			x, _ := t.Assign.(*ast.ExprStmt)
			ev.bad = (t.Init != nil && !ev.simple(t.Init)) || x == nil || ev.err == "" || exprString(x.X) != ev.err+".()"
			var deflt *ast.CaseClause
			matched := false
			for _, cl := range t.Body.List {
				cc := cl.(*ast.CaseClause)
				if cc.List == nil {
					deflt = cc
				}
				for _, ty := range cc.List {
					if n := exprString(ty); n != "nil" && n != "ChunkMissing" {
						ev.bad = true // which errors have that type is not known here
					} else if n == ev.kind {
						matched, next = true, cc.Body
					}
				}
			}
			if deflt != nil && !matched {
				next = deflt.Body
			}
		default:
			ev.bad = true
		}
		if r, d := ev.run(next); d || ev.bad {
			return r, d && !ev.bad
		}
	}
	return "", false
}

func (c *ctx) sshpoolClose(w *poolWalk) ([]string, bool) {
	fd := c.poolMethod(w, "Close")
	if fd == nil {
		return nil, false
	}
	stmts := w.live(fd.Body.List)
	if len(stmts) == 0 {
		return nil, false
	}
	retVar := "" // the variable the function returns at the end
	outer := func(st ast.Stmt) string {
		if ret, ok := st.(*ast.ReturnStmt); ok && st == stmts[len(stmts)-1] && retVar != "" && len(ret.Results) == 1 {
			return "return-err"
		}
		return ""
	}
	if ret, ok := stmts[len(stmts)-1].(*ast.ReturnStmt); !ok {
		return nil, false
	} else if len(ret.Results) == 1 && !isNil(ret.Results[0]) {
		retVar = w.varOf(ret.Results[0])
	}
	return w.loopFn(stmts, outer, func(b ast.Stmt) string {
		switch t := b.(type) {
		case *ast.AssignStmt:
			if on, args, isBye := w.methodCall(t.Rhs[0], "SendGoodbye"); isBye && len(t.Lhs) == 1 {
				switch {
				case w.sess == "" || on != w.sess || len(args) != 0:
					return "other:goodbye-wrong-session"
				case t.Tok == token.ASSIGN && retVar != "" && exprString(t.Lhs[0]) == retVar:
					return "goodbye-last-err"
				}
				return "other:goodbye-err-elsewhere"
			}
		case *ast.ExprStmt:
			if _, _, isBye := w.methodCall(t.X, "SendGoodbye"); isBye {
				return "other:goodbye-err-dropped"
			}
		case *ast.IfStmt: // `if e := x.SendGoodbye(); e != nil && err == nil { err = e }`: the first failure is reported
			in, _ := t.Init.(*ast.AssignStmt)
			if body := w.live(t.Body.List); in != nil && in.Tok == token.DEFINE && len(in.Lhs) == 1 && len(body) == 1 && t.Else == nil && retVar != "" {
				on, args, isBye := w.methodCall(in.Rhs[0], "SendGoodbye")
				e, cond := exprString(in.Lhs[0]), exprString(t.Cond)
				if isBye && w.sess != "" && on == w.sess && len(args) == 0 && e != retVar && stmtString(body[0]) == retVar+" = "+e &&
					(cond == e+"!=nil&&"+retVar+"==nil" || cond == retVar+"==nil&&"+e+"!=nil") {
					return "goodbye-first-err"
				}
			}
		}
		return ""
	})
}

func (c *ctx) sshpoolCtor(w *poolWalk) ([]string, bool) {
	fd := c.funcDecl(c.files, "", "NewRemoteSSHStore")
	if fd == nil || fd.Body == nil || w.pool == "" || w.cnt == "" {
		return nil, false
	}
	w.scan(fd)
	stmts := w.live(fd.Body.List)
	// the store: `v := RemoteSSH{<field>: …}` or `v := &RemoteSSH{…}`
	as, ok := append(stmts, nil)[0].(*ast.AssignStmt)
	if !ok || as.Tok != token.DEFINE || len(as.Lhs) != 1 || len(as.Rhs) != 1 {
		return nil, false
	}
	rhs, ptr := as.Rhs[0], false
	if ue, ok := rhs.(*ast.UnaryExpr); ok && ue.Op == token.AND {
		rhs, ptr = ue.X, true
	}
	lit, ok := rhs.(*ast.CompositeLit)
	if !ok || exprString(lit.Type) != "RemoteSSH" {
		return nil, false
	}
	w.store = exprString(as.Lhs[0])
	inits := map[string]ast.Expr{}
	for _, el := range lit.Elts {
		kv, ok := el.(*ast.KeyValueExpr)
		if !ok {
			return nil, false
		}
		inits[exprString(kv.Key)] = kv.Value
	}
	capacity, n := "nil", "0" // no initialiser: a nil channel, a zero counter
	if e, ok := inits[w.pool]; ok {
		capacity = "?" + exprString(e)
		if call, ok := e.(*ast.CallExpr); ok && exprString(call.Fun) == "make" && len(call.Args) >= 1 && len(call.Args) <= 2 {
			if _, ok := call.Args[0].(*ast.ChanType); ok && len(call.Args) == 1 {
				capacity = "0"
			} else if ok {
				capacity = exprString(w.resolve(call.Args[1]))
			}
		}
	}
	if e, ok := inits[w.cnt]; ok {
		n = exprString(w.resolve(e))
	}
	loc := paramOfType(fd, "*url.URL") // the parameter that says where the server is
	isStore := func(e ast.Expr) bool {
		if ue, ok := e.(*ast.UnaryExpr); ok && ue.Op == token.AND && !ptr {
			return w.varOf(ue.X) == w.store
		}
		return ptr && w.varOf(e) == w.store
	}
	outer := func(st ast.Stmt) string {
		if ret, ok := st.(*ast.ReturnStmt); ok && len(ret.Results) == 2 && isStore(ret.Results[0]) && isNil(ret.Results[1]) {
			return "return-store,nil"
		}
		return ""
	}
	errVar := ""
	out, ok := w.loopFn(stmts[1:], outer, func(b ast.Stmt) string {
		switch t := b.(type) {
		case *ast.AssignStmt:
			if call, ok := t.Rhs[0].(*ast.CallExpr); ok && exprString(call.Fun) == "StartProtocol" {
				if len(t.Lhs) != 2 || len(call.Args) != 1 || w.sess != "" || exprString(t.Lhs[0]) == "_" {
					return "other:start"
				}
				arg := call.Args[0]
				if se, ok := w.resolve(arg).(*ast.SelectorExpr); ok && w.varOf(se.X) == w.store && inits[se.Sel.Name] != nil {
					arg = inits[se.Sel.Name] // the store's copy of the parameter
				}
				if loc == "" || w.varOf(arg) != loc {
					return "other:start-wrong-arg"
				}
				w.sess, errVar = exprString(t.Lhs[0]), exprString(t.Lhs[1])
				return "start"
			}
		case *ast.IfStmt:
			v, ne, ok := nilTest(t.Cond)
			in := w.live(t.Body.List)
			if !ok || !ne || errVar == "" || errVar == "_" || v != errVar || t.Init != nil || t.Else != nil || len(in) != 1 {
				break
			}
			switch r := in[0].(type) {
			case *ast.BranchStmt:
				if r.Label == nil {
					return "if-err→" + r.Tok.String()
				}
			case *ast.ReturnStmt:
				if len(r.Results) == 2 && !isNil(r.Results[1]) && isStore(r.Results[0]) {
					return "if-err→return-store,err"
				} else if len(r.Results) == 2 && !isNil(r.Results[1]) && isNil(r.Results[0]) {
					return "if-err→return-nil,err"
				}
			}
		}
		return ""
	})
	return append([]string{"cap=" + capacity, "n=" + n}, out...), ok
}
