package main

import (
	"fmt"
	"go/ast"
	"go/token"
	"sort"
	"strings"
)

// s3.go / sftp.go: the chunk stores' StoreChunk / GetChunk / HasChunk / StoreObject and the SFTP connection pool
// (C06, C03).  `Model/RemoteStores.lean` mirrors these functions statement by statement, so the facts are statement
// skeletons (control structure, conditions, which variable an assignment writes, what is returned) plus a few
// derived Booleans for the things that went wrong before (an `err` declared inside the loop that hides the one
// returned after it; a return path that does not put the pooled connection back).

// skelExpr: exprString with string literals shortened (messages are not part of the shape)
func skelExpr(e ast.Expr) string {
	switch t := e.(type) {
	case *ast.BasicLit:
		if t.Kind == token.STRING {
			return "\"…\""
		}
		return t.Value
	case *ast.CallExpr:
		args := []string{}
		for _, a := range t.Args {
			args = append(args, skelExpr(a))
		}
		return skelExpr(t.Fun) + "(" + strings.Join(args, ",") + ")"
	case *ast.BinaryExpr:
		x, y := skelExpr(t.X), skelExpr(t.Y)
		if t.Op == token.ADD && (strings.HasPrefix(x, "\"") || strings.HasPrefix(y, "\"")) {
			return "\"…\"" // a message put together from pieces
		}
		return x + t.Op.String() + y
	case *ast.UnaryExpr:
		return t.Op.String() + skelExpr(t.X)
	case *ast.ParenExpr:
		return "(" + skelExpr(t.X) + ")"
	case *ast.SelectorExpr:
		return skelExpr(t.X) + "." + t.Sel.Name
	case *ast.FuncLit:
		return "func{" + strings.Join(skeleton(t.Body.List), ";") + "}"
	case *ast.CompositeLit:
		els := []string{}
		for _, x := range t.Elts {
			els = append(els, skelExpr(x))
		}
		return typeName(t.Type) + "{" + strings.Join(els, ",") + "}"
	case *ast.KeyValueExpr:
		return skelExpr(t.Key) + ":" + skelExpr(t.Value)
	}
	return exprString(e)
}

func skelExprs(es []ast.Expr) string {
	s := []string{}
	for _, e := range es {
		s = append(s, skelExpr(e))
	}
	return strings.Join(s, ",")
}

// skeleton renders a statement list as a flat token list; calls to the verification hooks are left out
func skeleton(list []ast.Stmt) []string {
	var out []string
	var stmt func(s ast.Stmt)
	block := func(b *ast.BlockStmt) {
		out = append(out, "{")
		if b != nil {
			for _, s := range b.List {
				stmt(s)
			}
		}
		out = append(out, "}")
	}
	stmt = func(s ast.Stmt) {
		switch t := s.(type) {
		case *ast.LabeledStmt:
			out = append(out, t.Label.Name+":")
			stmt(t.Stmt)
		case *ast.ExprStmt:
			if call, ok := t.X.(*ast.CallExpr); ok && strings.HasPrefix(exprString(call.Fun), "verif") {
				return
			}
			out = append(out, skelExpr(t.X))
		case *ast.IncDecStmt:
			out = append(out, skelExpr(t.X)+t.Tok.String())
		case *ast.AssignStmt:
			out = append(out, skelExprs(t.Lhs)+" "+t.Tok.String()+" "+skelExprs(t.Rhs))
		case *ast.DeclStmt:
			if gd, ok := t.Decl.(*ast.GenDecl); ok {
				for _, sp := range gd.Specs {
					if vs, ok := sp.(*ast.ValueSpec); ok {
						names := []string{}
						for _, n := range vs.Names {
							names = append(names, n.Name)
						}
						d := "var " + strings.Join(names, ",")
						if vs.Type != nil {
							d += " " + exprString(vs.Type)
						}
						if len(vs.Values) > 0 {
							d += " = " + skelExprs(vs.Values)
						}
						out = append(out, d)
					}
				}
			}
		case *ast.IfStmt:
			h := "if "
			if t.Init != nil {
				h += strings.Join(skeleton([]ast.Stmt{t.Init}), ";") + "; "
			}
			out = append(out, h+skelExpr(t.Cond))
			block(t.Body)
			if t.Else != nil {
				out = append(out, "else")
				if eb, ok := t.Else.(*ast.BlockStmt); ok {
					block(eb)
				} else {
					stmt(t.Else)
				}
			}
		case *ast.ForStmt:
			h := "for "
			if t.Init != nil {
				h += strings.Join(skeleton([]ast.Stmt{t.Init}), ";")
			}
			h += ";" + skelExpr(t.Cond) + ";"
			if t.Post != nil {
				h += strings.Join(skeleton([]ast.Stmt{t.Post}), ";")
			}
			out = append(out, h)
			block(t.Body)
		case *ast.RangeStmt:
			out = append(out, "for range "+skelExpr(t.X))
			block(t.Body)
		case *ast.SwitchStmt:
			out = append(out, "switch "+skelExpr(t.Tag))
			out = append(out, "{")
			for _, cc := range t.Body.List {
				if cl, ok := cc.(*ast.CaseClause); ok {
					if cl.List == nil {
						out = append(out, "default:")
					} else {
						cs := []string{}
						for _, x := range cl.List {
							cs = append(cs, exprString(x)) // the literal itself: the error codes matter
						}
						out = append(out, "case "+strings.Join(cs, ",")+":")
					}
					for _, s := range cl.Body {
						stmt(s)
					}
				}
			}
			out = append(out, "}")
		case *ast.BranchStmt:
			l := ""
			if t.Label != nil {
				l = " " + t.Label.Name
			}
			out = append(out, t.Tok.String()+l)
		case *ast.ReturnStmt:
			out = append(out, strings.TrimSpace("return "+skelExprs(t.Results)))
		case *ast.DeferStmt:
			out = append(out, "defer "+skelExpr(t.Call))
		case *ast.GoStmt:
			out = append(out, "go "+skelExpr(t.Call))
		case *ast.SendStmt:
			out = append(out, skelExpr(t.Chan)+" <- "+skelExpr(t.Value))
		case *ast.BlockStmt:
			block(t)
		default:
			out = append(out, fmt.Sprintf("<%T>", s))
		}
	}
	for _, s := range list {
		stmt(s)
	}
	return out
}

func (c *ctx) emitSkeleton(site, name, doc string, fd *ast.FuncDecl) {
	var sh []string
	if fd != nil && fd.Body != nil {
		sh = skeleton(fd.Body.List)
	}
	fmt.Fprintf(&c.lean, "/-- %s -/\n", doc)
	c.emitShape(site, name, sh, fd != nil)
}

// loopAssignsOuterErr: the statement that calls `callee` writes, with `=`, the variable `err` of the function's own
// scope — or declares it with `:=` in the very block that also holds the function's last `return` (then that return
// sees it).  false when the call's error goes to an `err` declared in an inner block (a `for` body, an `if`), which
// the `return … err …` after the loop does not see.
func loopAssignsOuterErr(fd *ast.FuncDecl, callee string) (found, outer bool) {
	if fd == nil || fd.Body == nil {
		return false, false
	}
	var visit func(b *ast.BlockStmt, top bool, shadowed bool)
	outer = true
	visitStmt := func(s ast.Stmt, top, shadowed bool) {}
	visit = func(b *ast.BlockStmt, top bool, shadowed bool) {
		if b == nil {
			return
		}
		for _, s := range b.List {
			visitStmt(s, top, shadowed)
			// a `:=` of err in this (inner) block hides the outer one for the statements that follow
			if as, ok := unlabel(s).(*ast.AssignStmt); ok && as.Tok == token.DEFINE && !top {
				for _, l := range as.Lhs {
					if exprString(l) == "err" {
						shadowed = true
					}
				}
			}
		}
	}
	visitStmt = func(s ast.Stmt, top, shadowed bool) {
		switch t := unlabel(s).(type) {
		case *ast.AssignStmt:
			isCall := false
			for _, r := range t.Rhs {
				if call, ok := r.(*ast.CallExpr); ok && shortCall(call) == callee {
					isCall = true
				}
			}
			if !isCall {
				return
			}
			found = true
			hasErr := false
			for _, l := range t.Lhs {
				if exprString(l) == "err" {
					hasErr = true
				}
			}
			switch {
			case !hasErr:
				outer = false
			case t.Tok == token.DEFINE && !top:
				outer = false
			case t.Tok == token.ASSIGN && shadowed:
				outer = false
			}
		case *ast.IfStmt:
			if as, ok := t.Init.(*ast.AssignStmt); ok {
				for _, r := range as.Rhs {
					if call, ok := r.(*ast.CallExpr); ok && shortCall(call) == callee {
						found, outer = true, false // `if _, err := Put…; err != nil`: scoped to the if
					}
				}
			}
			visit(t.Body, false, shadowed)
			if eb, ok := t.Else.(*ast.BlockStmt); ok {
				visit(eb, false, shadowed)
			}
		case *ast.ForStmt:
			visit(t.Body, false, shadowed)
		case *ast.RangeStmt:
			visit(t.Body, false, shadowed)
		case *ast.BlockStmt:
			visit(t, false, shadowed)
		}
	}
	visit(fd.Body, true, false)
	return found, found && outer
}

func unlabel(s ast.Stmt) ast.Stmt {
	for {
		l, ok := s.(*ast.LabeledStmt)
		if !ok {
			return s
		}
		s = l.Stmt
	}
}

func (c *ctx) remoteStoreFacts() {
	c.lean.WriteString("\n/-! s3.go / sftp.go: the chunk stores (C06, C03) -/\n")
	put := c.funcDecl(c.files, "S3Store", "StoreChunk")
	c.emitSkeleton("remote_s3_store", "remoteS3StoreSkel", "`S3Store.StoreChunk`, statement by statement", put)
	found, outer := loopAssignsOuterErr(put, "PutObject")
	c.site("remote_s3_store_put", found)
	c.lean.WriteString("/-- the error of `PutObject` goes to the `err` that the `return` after the loop reads (no `:=` in an inner block) -/\n")
	fmt.Fprintf(&c.lean, "def remoteS3LoopAssignsOuterErr : Bool := %v\n", outer)
	c.facts["remoteS3LoopAssignsOuterErr"] = outer

	get := c.funcDecl(c.files, "S3Store", "GetChunk")
	c.emitSkeleton("remote_s3_get", "remoteS3GetSkel", "`S3Store.GetChunk`", get)
	c.emitSkeleton("remote_s3_has", "remoteS3HasSkel", "`S3Store.HasChunk`", c.funcDecl(c.files, "S3Store", "HasChunk"))

	c.emitSkeleton("remote_sftp_storeobject", "remoteSftpStoreObjectSkel", "`SFTPStoreBase.StoreObject`", c.funcDecl(c.files, "SFTPStoreBase", "StoreObject"))
	c.emitSkeleton("remote_sftp_store", "remoteSftpStoreSkel", "`SFTPStore.StoreChunk`", c.funcDecl(c.files, "SFTPStore", "StoreChunk"))
	c.emitSkeleton("remote_sftp_get", "remoteSftpGetSkel", "`SFTPStore.GetChunk`", c.funcDecl(c.files, "SFTPStore", "GetChunk"))
	c.emitSkeleton("remote_sftp_has", "remoteSftpHasSkel", "`SFTPStore.HasChunk`", c.funcDecl(c.files, "SFTPStore", "HasChunk"))

	// the pool: every method of SFTPStore that receives from s.pool does so in its first statement and registers the
	// put-back as a deferred call in its second, and contains no other receive (Close drains the pool: listed apart)
	var takers, bad, drains []string
	for _, f := range c.files {
		for _, d := range f.Decls {
			fd, ok := d.(*ast.FuncDecl)
			if !ok || fd.Recv == nil || len(fd.Recv.List) != 1 || typeName(fd.Recv.List[0].Type) != "SFTPStore" || fd.Body == nil {
				continue
			}
			recvs := 0
			walk(fd.Body, func(n ast.Node) bool {
				if u, ok := n.(*ast.UnaryExpr); ok && u.Op == token.ARROW && exprString(u.X) == "s.pool" {
					recvs++
				}
				return true
			})
			if recvs == 0 {
				continue
			}
			sk := skeleton(fd.Body.List)
			if len(sk) >= 2 && sk[0] == "c := <-s.pool" && sk[1] == "defer func{s.pool <- c}()" && recvs == 1 {
				takers = append(takers, fd.Name.Name)
			} else if fd.Name.Name == "Close" {
				drains = append(drains, fd.Name.Name)
			} else {
				bad = append(bad, fd.Name.Name)
			}
		}
	}
	sort.Strings(takers)
	sort.Strings(bad)
	c.site("remote_sftp_pool", len(takers)+len(bad) > 0)
	c.lean.WriteString("/-- methods of `SFTPStore` that begin with `c := <-s.pool; defer func() { s.pool <- c }()` and take no other connection -/\n")
	fmt.Fprintf(&c.lean, "def remoteSftpPoolDeferredPutBack : List String := [%s]\n", quoteList(takers))
	c.lean.WriteString("/-- methods that take a connection in another way (a return path may not give it back) -/\n")
	fmt.Fprintf(&c.lean, "def remoteSftpPoolOtherTakers : List String := [%s]\n", quoteList(bad))
	fmt.Fprintf(&c.lean, "def remoteSftpPoolDrains : List String := [%s]\n", quoteList(drains))
	c.facts["remoteSftpPoolDeferredPutBack"] = takers
	c.facts["remoteSftpPoolOtherTakers"] = bad
}
