package main

// Option and location plumbing of cmd/desync (C15, C03, C20, C14): which source — a flag, "the flag was given", an
// environment variable, a field of the configuration entry selected for the location — arrives at which constructor
// argument, extracted by symbolic evaluation (storeoptseval.go) and emitted as Lean FUNCTIONS of the sources, so
// that the obligations in Properties/*StoreOptsGen.lean are equalities "what the code wires = what the model says"
// for every value of every source.

import (
	"fmt"
	"go/ast"
	"sort"
	"strconv"
	"strings"
)

const soPrelude = `
/-! cmd/desync option plumbing (C15 / C03 / C20 / C14): regenerated data flow -/
/-- the sources an option value can come from: flag values by flag name (bool / string / integer), whether the flag
    was given, environment variables, the fields of the configuration entry selected for the location (by Go field
    name), fields of the command's store options no flag in sight is bound to, and conditions / values the
    extractor does not interpret (universally quantified in every obligation) -/
structure StoreoptsIn where
  flagB : String → Bool
  flagS : String → String
  flagI : String → Int
  changed : String → Bool
  env : String → String
  cfgB : String → Bool
  cfgS : String → String
  cfgI : String → Int
  cmdB : String → Bool
  cmdS : String → String
  cmdI : String → Int
  opqB : String → Bool
  opqS : String → String
  opqI : String → Int
`

var soStoreCtors = []string{"desync.NewLocalStore", "desync.NewRemoteHTTPStore", "desync.NewSFTPStore", "desync.NewRemoteSSHStore",
	"desync.NewS3Store", "desync.NewGCStore", "desync.NewSFTPIndexStore", "desync.NewRemoteHTTPIndexStore", "desync.NewS3IndexStore",
	"desync.NewGCIndexStore", "desync.NewLocalIndexStore", "desync.NewConsoleIndexStore"}

func (c *ctx) newStoreOptsEval() *soEval {
	e := newSoEval(c, c.cmd)
	for _, n := range append([]string{"desync.NewHTTPHandler", "desync.NewHTTPIndexHandler", "http.Handle"}, soStoreCtors...) {
		e.sinkNames[n] = true
	}
	e.sinkMethods = map[string]bool{"ListenAndServe": true, "ListenAndServeTLS": true}
	return e
}

// leanTy: the Lean type a term has when emitted, "" when it is not well-typed
func soLeanTy(t *soTerm) string {
	base := func(ty string) string {
		switch ty {
		case "B":
			return "Bool"
		case "I":
			return "Int"
		}
		return "String"
	}
	switch t.op {
	case "str", "sym", "nil":
		return "String"
	case "bool":
		return "Bool"
	case "int":
		return "Int"
	case "flag", "cfg", "cmd", "opq":
		return base(t.ty)
	case "env":
		return "String"
	case "changed":
		return "Bool"
	case "not":
		if soLeanTy(t.args[0]) == "Bool" {
			return "Bool"
		}
	case "and":
		if soLeanTy(t.args[0]) == "Bool" && soLeanTy(t.args[1]) == "Bool" {
			return "Bool"
		}
	case "eq":
		a, b := soLeanTy(t.args[0]), soLeanTy(t.args[1])
		if a != "" && a == b {
			return "Bool"
		}
	case "ite":
		a, b := soLeanTy(t.args[1]), soLeanTy(t.args[2])
		if soLeanTy(t.args[0]) == "Bool" && a != "" && a == b {
			return a
		}
	}
	return ""
}

func soLean(t *soTerm) string {
	q := strconv.Quote
	suffix := func(ty string) string {
		switch ty {
		case "B":
			return "B"
		case "I":
			return "I"
		}
		return "S"
	}
	switch t.op {
	case "str":
		return q(t.s)
	case "sym":
		return q("sym:" + t.s)
	case "nil":
		return q("sym:nil")
	case "bool":
		return t.s
	case "int":
		return "(" + t.s + " : Int)"
	case "flag":
		return "(i.flag" + suffix(t.ty) + " " + q(t.s) + ")"
	case "changed":
		return "(i.changed " + q(t.s) + ")"
	case "env":
		return "(i.env " + q(t.s) + ")"
	case "cfg":
		f := t.s
		if k := strings.LastIndex(f, "/"); k >= 0 {
			f = f[k+1:]
		}
		return "(i.cfg" + suffix(t.ty) + " " + q(f) + ")"
	case "cmd":
		return "(i.cmd" + suffix(t.ty) + " " + q(t.s) + ")"
	case "opq":
		return "(i.opq" + suffix(t.ty) + " " + q(t.s) + ")"
	case "not":
		if a := t.args[0]; a.op == "and" && a.args[0].op == "not" && a.args[1].op == "not" {
			return "(" + soLean(a.args[0].args[0]) + " || " + soLean(a.args[1].args[0]) + ")"
		}
		return "(!" + soLean(t.args[0]) + ")"
	case "and":
		return "(" + soLean(t.args[0]) + " && " + soLean(t.args[1]) + ")"
	case "eq":
		return "(" + soLean(t.args[0]) + " == " + soLean(t.args[1]) + ")"
	case "ite":
		return "(if " + soLean(t.args[0]) + " then " + soLean(t.args[1]) + " else " + soLean(t.args[2]) + ")"
	}
	return q("?")
}

// emitTerm writes `def <name> (i : StoreoptsIn) : T := …`; a value the analysis could not type gives a placeholder
// and the site is reported as not found
func (c *ctx) soEmitTerm(site, name, doc string, v soVal, wantTy string) bool {
	t, ok := v.(*soTerm)
	ty := ""
	if ok && t != nil {
		ty = soLeanTy(t)
	}
	good := ty != "" && (wantTy == "" || wantTy == ty)
	c.site(site, good)
	if doc != "" {
		fmt.Fprintf(&c.lean, "/-- %s -/\n", doc)
	}
	if !good {
		if wantTy == "" {
			wantTy = "String"
		}
		ph := map[string]string{"Bool": "false", "Int": "0", "String": "\"?\""}[wantTy]
		fmt.Fprintf(&c.lean, "-- SITE NOT FOUND: %s\ndef %s (i : StoreoptsIn) : %s := %s\n", site, name, wantTy, ph)
		return false
	}
	fmt.Fprintf(&c.lean, "def %s (i : StoreoptsIn) : %s := %s\n", name, ty, soLean(t))
	c.facts[name] = t.String()
	return true
}

func soConjuncts(t *soTerm) []*soTerm {
	if t == nil {
		return nil
	}
	if t.op == "and" {
		return append(soConjuncts(t.args[0]), soConjuncts(t.args[1])...)
	}
	if t.op == "bool" && t.s == "true" {
		return nil
	}
	return []*soTerm{t}
}

// soLeaves: the values a term can take (the leaves of its if-then-else tree)
func soLeaves(t *soTerm, out map[string]bool) {
	if t.op == "ite" {
		soLeaves(t.args[1], out)
		soLeaves(t.args[2], out)
		return
	}
	out[t.String()] = true
}

func (c *ctx) soStoreOptionFields() (names []string, tys map[string]string) {
	tys = map[string]string{}
	for _, f := range c.files {
		for _, d := range f.Decls {
			gd, ok := d.(*ast.GenDecl)
			if !ok {
				continue
			}
			for _, sp := range gd.Specs {
				ts, ok := sp.(*ast.TypeSpec)
				if !ok || ts.Name.Name != "StoreOptions" {
					continue
				}
				if st, ok := ts.Type.(*ast.StructType); ok {
					for _, fl := range st.Fields.List {
						for _, n := range fl.Names {
							names = append(names, n.Name)
							tys[n.Name] = map[string]string{"B": "Bool", "I": "Int"}[soTyOf(fl.Type)]
							if tys[n.Name] == "" {
								tys[n.Name] = "String"
							}
						}
					}
				}
			}
		}
	}
	return
}

// soStripKeys renders the fields of an options structure without the lookup key in the cfg terms
func (e *soEval) soOptFields(s *soStruct, fields []string) map[string]*soTerm {
	out := map[string]*soTerm{}
	for _, f := range fields {
		v, _ := e.readField(s, f)
		if t, ok := v.(*soTerm); ok {
			out[f] = t
		}
	}
	return out
}

func soStripKey(s string) string { // cfg:B(<key>/Field) -> cfg:B(Field)
	for {
		i := strings.Index(s, "cfg:")
		if i < 0 {
			return s
		}
		j := strings.Index(s[i:], "(")
		// find the matching close of this cfg term: keys contain parentheses, fields do not
		depth, k := 0, i+j
		for ; k < len(s); k++ {
			if s[k] == '(' {
				depth++
			} else if s[k] == ')' {
				depth--
				if depth == 0 {
					break
				}
			}
		}
		inner := s[i+j+1 : k]
		if sl := strings.LastIndex(inner, "/"); sl >= 0 {
			inner = inner[sl+1:]
		}
		s = s[:i] + "CFG:" + s[i+4:i+j] + "<" + inner + ">" + s[k+1:]
	}
}

// emitOptions: the StoreOptions structure the store constructors among the sinks receive — one structure for all of
// them (uniform), field by field
func (c *ctx) soEmitOptions(e *soEval, prefix, what string, sinks []soSink) {
	fields, tys := c.soStoreOptionFields()
	var first *soStruct
	uniform := true
	ctors := map[string]bool{}
	var firstStr map[string]string
	for _, sk := range sinks {
		isCtor := false
		for _, n := range soStoreCtors {
			isCtor = isCtor || n == sk.callee
		}
		if !isCtor {
			continue
		}
		var opt *soStruct
		for _, a := range sk.args {
			if s, ok := a.(*soStruct); ok && s.typ == "desync.StoreOptions" {
				opt = s
			}
		}
		if opt == nil {
			if sk.callee == "desync.NewLocalIndexStore" || sk.callee == "desync.NewConsoleIndexStore" {
				continue // these take no options
			}
			uniform = false
			continue
		}
		ctors[sk.callee] = true
		cur := map[string]string{}
		for f, t := range e.soOptFields(opt, fields) {
			cur[f] = soStripKey(t.String())
		}
		if first == nil {
			first, firstStr = opt, cur
			continue
		}
		for _, f := range fields {
			if cur[f] != firstStr[f] {
				uniform = false
			}
		}
	}
	names := make([]string, 0, len(ctors))
	for n := range ctors {
		names = append(names, strings.TrimPrefix(n, "desync."))
	}
	sort.Strings(names)
	fmt.Fprintf(&c.lean, "/-- %s: the store constructors that are handed options -/\n", what)
	fmt.Fprintf(&c.lean, "def %sCtors : List String := [%s]\n", prefix, quoteList(names))
	fmt.Fprintf(&c.lean, "/-- … and every one of them is handed the same options value -/\n")
	fmt.Fprintf(&c.lean, "def %sUniform : Bool := %v\n", prefix, uniform && first != nil)
	c.site("storeopts_"+prefix+"_options", first != nil)
	for _, f := range fields {
		var v soVal
		if first != nil {
			v, _ = e.readField(first, f)
		}
		c.soEmitTerm("storeopts_"+prefix+"_opt_"+f, prefix+"Opt"+f, "", v, tys[f])
	}
	if strings.HasSuffix(prefix, "Up") {
		return // the servers' upstream locations come from flags and files: the handler wiring is what is stated
	}
	keys := append([]string{}, e.cfgKeys...)
	fmt.Fprintf(&c.lean, "/-- the location(s) the configuration is asked about (`GetStoreOptionsFor`) -/\n")
	fmt.Fprintf(&c.lean, "def %sCfgKeys : List String := [%s]\n", prefix, quoteList(keys))
	c.facts[prefix+"CfgKeys"] = keys
}

// runServerCommand evaluates new<X>Command (flag registration) and then the RunE closure of the command it builds
func (c *ctx) soServerCommand(newFn string) (*soEval, bool) {
	e := c.newStoreOptsEval()
	fd := c.funcDecl(c.cmd, "", newFn)
	if fd == nil || fd.Body == nil {
		return e, false
	}
	st := &soState{path: soBool(true), rel: soBool(true)}
	fr := &soFrame{fn: newFn, scopes: []map[string]soVal{{}}}
	for _, p := range fd.Type.Params.List {
		for _, n := range p.Names {
			fr.scopes[0][n.Name] = soOpq("K", "param:"+typeName(p.Type))
		}
	}
	st.frames = []*soFrame{fr}
	func() {
		defer func() {
			if r := recover(); r != nil {
				e.bad("the evaluator gave up: %v", r)
			}
		}()
		// the body up to its return statement, then the command's RunE
		for _, s := range fd.Body.List {
			if _, ok := s.(*ast.ReturnStmt); ok {
				break
			}
			e.stmt(st, s)
		}
		if e.runE == nil {
			e.bad("no RunE")
			return
		}
		fr := st.top()
		fr.scopes = append(fr.scopes, map[string]soVal{})
		for _, p := range e.runE.Type.Params.List {
			for _, n := range p.Names {
				fr.scopes[len(fr.scopes)-1][n.Name] = soOpq("K", "param:"+typeName(p.Type))
			}
		}
		fr.nres, fr.errRes = 1, true
		e.block(st, e.runE.Body.List, false)
	}()
	return e, len(e.unsupported) == 0 && e.runE != nil
}

func (c *ctx) soSinkArg(sinks []soSink, callee string, k int) (soVal, int) {
	var v soVal
	n := 0
	for _, s := range sinks {
		if s.callee == callee && k < len(s.args) {
			if n == 0 {
				v = s.args[k]
			} else if tv, ok := v.(*soTerm); ok {
				if ts, ok := s.args[k].(*soTerm); !ok || ts.String() != tv.String() {
					v = nil // two handlers configured differently: refuse
				}
			}
			n++
		}
	}
	return v, n
}

func (c *ctx) storeOptsFacts() {
	c.lean.WriteString(soPrelude)
	type srv struct {
		newFn, prefix, ctor, what string
		args                      []string // names of the constructor's arguments after the store
		tys                       []string
	}
	for _, s := range []srv{
		{"newChunkServerCommand", "storeoptsCS", "desync.NewHTTPHandler", "chunk-server", []string{"Writable", "SkipVerifyWrite", "Converters", "Auth"}, []string{"Bool", "Bool", "String", "String"}},
		{"newIndexServerCommand", "storeoptsIS", "desync.NewHTTPIndexHandler", "index-server", []string{"Writable", "Auth"}, []string{"Bool", "String"}},
	} {
		fmt.Fprintf(&c.lean, "\n/-! `desync %s`: what the handler, the TLS configuration and the upstream store are made from -/\n", s.what)
		e, ok := c.soServerCommand(s.newFn)
		c.site("storeopts_"+s.prefix, ok)
		if !ok {
			fmt.Fprintf(&c.lean, "-- SITE NOT FOUND: %s (%s)\n", s.newFn, strings.Join(e.unsupported, "; "))
		}
		for k, a := range s.args {
			v, n := c.soSinkArg(e.sinks, s.ctor, k+1)
			if n == 0 {
				v = nil
			}
			c.soEmitTerm("storeopts_"+s.prefix+"_"+a, s.prefix+a, fmt.Sprintf("`%s`: the %s argument of `%s`", s.what, a, s.ctor), v, s.tys[k])
		}
		// what is registered with http.Handle
		served := map[string]bool{}
		if v, n := c.soSinkArg(e.sinks, "http.Handle", 1); n > 0 && v != nil {
			if t, ok := v.(*soTerm); ok {
				soLeaves(t, served)
			}
		}
		var sv []string
		for k := range served {
			// wrappers keep what they wrap: `withLog(h, …)` is rendered as withLog(<h>)
			sv = append(sv, soShortServed(k))
		}
		sort.Strings(sv)
		sv = dedupe(sv)
		fmt.Fprintf(&c.lean, "/-- `%s`: what can be registered with `http.Handle` -/\ndef %sServed : List String := [%s]\n", s.what, s.prefix, quoteList(sv))
		c.facts[s.prefix+"Served"] = sv
		// TLS: the ClientAuth of the configuration the servers get, and when the TLS listener is used
		var clientAuth soVal
		for _, sk := range e.sinks {
			if sk.callee == "http.Server" && len(sk.args) == 1 {
				if p, ok := sk.args[0].(*soPtr); ok {
					clientAuth, _ = e.readField(p.to, "ClientAuth")
				} else if p, ok := sk.args[0].(*soStruct); ok {
					clientAuth, _ = e.readField(p, "ClientAuth")
				}
			}
		}
		c.soEmitTerm("storeopts_"+s.prefix+"_ClientAuth", s.prefix+"ClientAuth", fmt.Sprintf("`%s`: `tls.Config.ClientAuth` of the servers", s.what), clientAuth, "String")
		var tlsPath, plainPath []*soTerm
		haveTLS, havePlain := false, false
		for _, sk := range e.sinks {
			switch sk.callee {
			case ".ListenAndServeTLS":
				tlsPath, haveTLS = soConjuncts(sk.path), true
			case ".ListenAndServe":
				plainPath, havePlain = soConjuncts(sk.path), true
			}
		}
		var tlsCond soVal
		if haveTLS && havePlain {
			common := map[string]bool{}
			for _, t := range plainPath {
				common[t.String()] = true
			}
			cond := soBool(true)
			for _, t := range tlsPath {
				if !common[t.String()] {
					cond = soAnd(cond, t)
				}
			}
			tlsCond = cond
		} else if haveTLS {
			tlsCond = soBool(true)
		} else if havePlain {
			tlsCond = soBool(false)
		}
		c.soEmitTerm("storeopts_"+s.prefix+"_UsesTLS", s.prefix+"UsesTLS", fmt.Sprintf("`%s`: the listener is a TLS listener", s.what), tlsCond, "Bool")
		c.soEmitOptions(e, s.prefix+"Up", "`"+s.what+"` upstream store", e.sinks)
		// flags
		var fl []string
		for _, f := range e.flags {
			fl = append(fl, fmt.Sprintf("%s|%s|%s|%s|%s", f.Name, f.Short, f.Ty, f.Default, f.Field))
		}
		sort.Strings(fl)
		fmt.Fprintf(&c.lean, "/-- `%s`: the flags (name|short|type|default|field) -/\ndef %sFlags : List String := [%s]\n", s.what, s.prefix, quoteList(fl))
		c.facts[s.prefix+"Flags"] = fl
		lost := append([]string{}, e.lost...)
		sort.Strings(lost)
		fmt.Fprintf(&c.lean, "/-- `%s`: assignments to a field of a COPY (value receiver, by-value parameter, the copy a type assertion yields) that nothing reads afterwards -/\n", s.what)
		fmt.Fprintf(&c.lean, "def %sLostWrites : List String := [%s]\n", s.prefix, quoteList(lost))
		c.facts[s.prefix+"LostWrites"] = lost
	}

	// the client side: storeFromLocation / indexStoreFromLocation on a symbolic location and symbolic command options
	for _, d := range []struct{ fn, prefix string }{{"storeFromLocation", "storeoptsSFL"}, {"indexStoreFromLocation", "storeoptsISFL"}} {
		fmt.Fprintf(&c.lean, "\n/-! `%s`: the options the backends are made with, and the dispatch on the scheme -/\n", d.fn)
		e := c.newStoreOptsEval()
		fd := c.funcDecl(c.cmd, "", d.fn)
		add := c.funcDecl(c.cmd, "", "addStoreOptions")
		ok := fd != nil && add != nil
		if ok {
			func() {
				defer func() {
					if r := recover(); r != nil {
						e.bad("the evaluator gave up: %v", r)
					}
				}()
				st := &soState{path: soBool(true), rel: soBool(true)}
				st.frames = []*soFrame{{fn: "entry", scopes: []map[string]soVal{{}}}}
				cmdOpt := e.newStruct("cmdStoreOptions", func(f, ty string) *soTerm { return &soTerm{op: "cmd", ty: ty, s: f} })
				e.inlineVals(st, "addStoreOptions", add.Type, add.Body, nil, []soVal{&soPtr{to: cmdOpt}, soOpq("K", "flagset")}, false)
				e.lost = nil
				e.inlineVals(st, d.fn, fd.Type, fd.Body, nil, []soVal{&soTerm{op: "opq", ty: "S", s: "param:0"}, e.copyStruct(cmdOpt)}, false)
			}()
		}
		ok = ok && len(e.unsupported) == 0
		c.site("storeopts_"+d.prefix, ok)
		if !ok {
			fmt.Fprintf(&c.lean, "-- SITE NOT FOUND: %s (%s)\n", d.fn, strings.Join(e.unsupported, "; "))
		}
		c.soEmitOptions(e, d.prefix, "`"+d.fn+"`", e.sinks)
		// dispatch: scheme strings of each case of the switch on the parsed URL's scheme -> the constructor called
		var table []string
		if fd != nil {
			walk(fd.Body, func(n ast.Node) bool {
				sw, ok := n.(*ast.SwitchStmt)
				if !ok || sw.Tag == nil || !strings.HasSuffix(exprString(sw.Tag), ".Scheme") {
					return true
				}
				for _, cs := range sw.Body.List {
					cc := cs.(*ast.CaseClause)
					var keys []string
					for _, x := range cc.List {
						if s, ok := soLitString(x); ok {
							keys = append(keys, s)
						} else {
							keys = append(keys, "?"+exprString(x))
						}
					}
					if cc.List == nil {
						keys = []string{"default"}
					}
					var ctors []string
					for _, b := range cc.Body {
						walk(b, func(m ast.Node) bool {
							if call, ok := m.(*ast.CallExpr); ok {
								if fn := exprString(call.Fun); e.sinkNames[fn] && strings.HasPrefix(fn, "desync.") {
									ctors = append(ctors, strings.TrimPrefix(fn, "desync."))
								}
							}
							return true
						})
					}
					if len(ctors) == 0 {
						ctors = []string{"none"}
					}
					table = append(table, strings.Join(keys, ",")+"->"+strings.Join(ctors, "+"))
				}
				return false
			})
		}
		sort.Strings(table)
		fmt.Fprintf(&c.lean, "/-- `%s`: scheme(s) -> constructor -/\ndef %sDispatch : List String := [%s]\n", d.fn, d.prefix, quoteList(table))
		c.facts[d.prefix+"Dispatch"] = table
		lost := append([]string{}, e.lost...)
		sort.Strings(lost)
		fmt.Fprintf(&c.lean, "def %sLostWrites : List String := [%s]\n", d.prefix, quoteList(lost))
	}

	// MultiStoreWithCache: lost writes (the cache's UpdateTimes)
	{
		e := c.newStoreOptsEval()
		fd := c.funcDecl(c.cmd, "", "MultiStoreWithCache")
		ok := fd != nil
		if ok {
			func() {
				defer func() {
					if r := recover(); r != nil {
						e.bad("the evaluator gave up: %v", r)
					}
				}()
				st := &soState{path: soBool(true), rel: soBool(true)}
				st.frames = []*soFrame{{fn: "entry", scopes: []map[string]soVal{{}}}}
				cmdOpt := e.newStruct("cmdStoreOptions", func(f, ty string) *soTerm { return &soTerm{op: "cmd", ty: ty, s: f} })
				e.inlineVals(st, "MultiStoreWithCache", fd.Type, fd.Body, nil, []soVal{cmdOpt, &soTerm{op: "opq", ty: "S", s: "param:1"}, &soTerm{op: "opq", ty: "L", s: "param:2"}}, false)
			}()
		}
		c.site("storeopts_MultiStoreWithCache", ok && len(e.unsupported) == 0)
		lost := append([]string{}, e.lost...)
		sort.Strings(lost)
		fmt.Fprintf(&c.lean, "\n/-- `MultiStoreWithCache`: assignments to a field of a copy that nothing reads afterwards -/\n")
		fmt.Fprintf(&c.lean, "def storeoptsMSCLostWrites : List String := [%s]\n", quoteList(lost))
		c.facts["storeoptsMSCLostWrites"] = lost
	}
}

func dedupe(s []string) []string {
	var out []string
	for i, x := range s {
		if i == 0 || x != s[i-1] {
			out = append(out, x)
		}
	}
	return out
}

// soShortServed: "sym:K(made:desync.NewHTTPHandler)" -> "NewHTTPHandler"; a wrapper call keeps its name around it
func soShortServed(s string) string {
	name := func(x string) string {
		for _, n := range []string{"desync.NewHTTPHandler", "desync.NewHTTPIndexHandler"} {
			if strings.Contains(x, "made:"+n) {
				return strings.TrimPrefix(n, "desync.")
			}
		}
		return ""
	}
	if strings.HasPrefix(s, "sym:K(made:") {
		return name(s)
	}
	if strings.HasPrefix(s, "opq:K(") {
		inner := strings.TrimPrefix(s, "opq:K(")
		if i := strings.Index(inner, "("); i > 0 {
			if n := name(inner[i:]); n != "" {
				return inner[:i] + "(" + n + ")"
			}
		}
	}
	return "other:" + s
}
