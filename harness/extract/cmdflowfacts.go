package main

// The command layer of cmd/desync as FLOWS (lean/Desync/Model/CmdFlow.lean): for every run<Cmd> function (and the
// helpers readCaibxFile / storeCaibxFile / writeWithTmpFile / writeInplace) the effectful calls in execution order,
// under which option conditions and loops they sit, what becomes of each call's error, which context each call is
// given, what every path returns and which Close calls are deferred.  Extraction is by meaning: local names do not
// appear (an error variable is followed from the call that sets it to the statement that looks at it, single
// assignment locals are looked through in conditions, `x, err := f(); if err != nil {…}` and `if err := f(); err != nil {…}`
// are the same thing, an `if/else` whose branches both end by setting the error variable shares the check that
// follows, `step; return nil` is `return step`), verif hooks are skipped, and a statement the translation does not
// understand makes the flow `complete := false` (every obligation about that command turns red) instead of being guessed.
// Also: the shape of main() (signals, cancel, exit status, RunE + context of every command constructor) and the
// offset/length arithmetic of runCat.

import (
	"fmt"
	"go/ast"
	"go/token"
	"sort"
	"strings"
)

type cfStep struct{ callee, ctx, onErr string }

type cfCond struct {
	op   string // atom | not | and | or
	name string
	a, b *cfCond
}

type cfStmt struct {
	kind     string // step ret fail retNil deferred spawn join cond loop mayStop
	step     *cfStep
	name     string // deferred callee / join callee / loop over / mayStop what
	onErr    string // join
	cond     *cfCond
	thn, els []*cfStmt
}

// helpers of cmd/desync that stay opaque steps (their own flows are emitted separately where they matter)
var cfOpaque = map[string]bool{"readCaibxFile": true, "storeCaibxFile": true, "WritableStore": true, "MultiStoreWithCache": true,
	"multiStoreWithRouter": true, "storeFromLocation": true, "storeGroup": true, "readChunkIDFile": true, "readSeeds": true,
	"readSeedDirs": true, "writeInplace": true, "writeWithTmpFile": true, "printJSON": true, "parseChunkSizeParam": true,
	"indexStoreFromLocation": true, "writableIndexStore": true}

// standard-library (and vendored) calls that return an error
var cfStdErr = map[string]bool{"os.Open": true, "os.Create": true, "os.Rename": true, "os.Stat": true, "io.Copy": true, "io.CopyN": true,
	".Seek": true, ".Stat": true, "filepath.Abs": true, "filepath.Walk": true, "tempfile.NewMode": true, "os.OpenFile": true,
	"os.MkdirAll": true, "os.WriteFile": true, "os.ReadFile": true}

type cfWalker struct {
	c        *ctx
	file     *ast.File
	ctxParam string
	pkgs     map[string]bool
	errVars  map[string]bool
	pending  map[string][]*cfStep // error variable -> the steps whose error it holds, not looked at yet
	spawned  map[string]string    // error variable written by a goroutine -> callee
	alias    map[string]ast.Expr
	nilGuard map[string]*cfCond
	declared map[string]bool // `var x T` without a value
	complete bool
	why      []string
	depth    int
}

func (w *cfWalker) bad(what string) {
	w.complete = false
	w.why = append(w.why, what)
}

func (w *cfWalker) canon(e ast.Expr) string {
	if id, ok := e.(*ast.Ident); ok {
		if d, ok := w.alias[id.Name]; ok {
			return w.canon(d)
		}
	}
	switch t := e.(type) {
	case *ast.ParenExpr:
		return w.canon(t.X)
	case *ast.SelectorExpr:
		s := w.canon(t.X) + "." + t.Sel.Name
		s = strings.TrimPrefix(s, "opt.")
		s = strings.TrimPrefix(s, "cmdStoreOptions.")
		return s
	case *ast.IndexExpr:
		return w.canon(t.X) + "[" + w.canon(t.Index) + "]"
	case *ast.CallExpr:
		if len(t.Args) == 1 {
			switch exprString(t.Fun) {
			case "int", "int64", "uint64", "uint", "string":
				return w.canon(t.Args[0])
			}
		}
		args := []string{}
		for _, a := range t.Args {
			args = append(args, w.canon(a))
		}
		return exprString(t.Fun) + "(" + strings.Join(args, ",") + ")"
	}
	return exprString(e)
}

func cfNot(c *cfCond) *cfCond {
	if c.op == "not" {
		return c.a
	}
	return &cfCond{op: "not", a: c}
}

func isLit(e ast.Expr, v string) bool {
	b, ok := e.(*ast.BasicLit)
	return ok && b.Value == v
}

func (w *cfWalker) condOf(e ast.Expr) *cfCond {
	switch t := e.(type) {
	case *ast.ParenExpr:
		return w.condOf(t.X)
	case *ast.UnaryExpr:
		if t.Op == token.NOT {
			return cfNot(w.condOf(t.X))
		}
	case *ast.BinaryExpr:
		switch t.Op {
		case token.LAND:
			return &cfCond{op: "and", a: w.condOf(t.X), b: w.condOf(t.Y)}
		case token.LOR:
			return &cfCond{op: "or", a: w.condOf(t.X), b: w.condOf(t.Y)}
		case token.EQL, token.NEQ, token.GTR:
			x, y := t.X, t.Y
			var at *cfCond
			pos := true // the atom says "x is set / non-empty / non-nil"
			switch {
			case isLit(y, `""`):
				at, pos = &cfCond{op: "atom", name: w.canon(x)}, t.Op == token.NEQ
			case isLit(y, "0"):
				n := w.canon(x)
				if call, ok := x.(*ast.CallExpr); ok && exprString(call.Fun) == "len" && len(call.Args) == 1 {
					n = w.canon(call.Args[0])
				} else {
					n += ">0"
				}
				at, pos = &cfCond{op: "atom", name: n}, t.Op != token.EQL
			case exprString(y) == "nil":
				if id, ok := x.(*ast.Ident); ok {
					if g, ok := w.nilGuard[id.Name]; ok {
						at = g
					}
				}
				if at == nil {
					at = &cfCond{op: "atom", name: w.canon(x) + "≠nil"}
				}
				pos = t.Op == token.NEQ
			default:
				if t.Op == token.GTR {
					at = &cfCond{op: "atom", name: w.canon(x) + ">" + w.canon(y)}
				} else {
					at, pos = &cfCond{op: "atom", name: w.canon(x) + "==" + w.canon(y)}, t.Op == token.EQL
				}
			}
			if pos {
				return at
			}
			return cfNot(at)
		}
	}
	return &cfCond{op: "atom", name: w.canon(e)}
}

func (w *cfWalker) calleeName(call *ast.CallExpr) string {
	switch f := call.Fun.(type) {
	case *ast.Ident:
		return f.Name
	case *ast.SelectorExpr:
		if id, ok := f.X.(*ast.Ident); ok && w.pkgs[id.Name] {
			return id.Name + "." + f.Sel.Name
		}
		if f.Sel.Name == "validate" {
			return "opt.validate"
		}
		return "." + f.Sel.Name
	}
	return exprString(call.Fun)
}

func (w *cfWalker) ctxOf(call *ast.CallExpr) string {
	res := "none"
	for _, a := range call.Args {
		switch t := a.(type) {
		case *ast.Ident:
			if t.Name == w.ctxParam && w.ctxParam != "" {
				return "cmd"
			}
			if d, ok := w.alias[t.Name]; ok {
				if c2, ok := d.(*ast.CallExpr); ok && strings.HasPrefix(exprString(c2.Fun), "context.") {
					n := exprString(c2.Fun)
					if n == "context.Background" || n == "context.TODO" {
						res = "background"
					} else {
						res = "other"
					}
					continue
				}
			}
			if strings.Contains(strings.ToLower(t.Name), "ctx") {
				res = "other"
			}
		case *ast.CallExpr:
			n := exprString(t.Fun)
			if n == "context.Background" || n == "context.TODO" {
				res = "background"
			} else if strings.HasPrefix(n, "context.") {
				res = "other"
			}
		}
	}
	return res
}

func lastIsError(ft *ast.FuncType) bool {
	if ft == nil || ft.Results == nil || len(ft.Results.List) == 0 {
		return false
	}
	return exprString(ft.Results.List[len(ft.Results.List)-1].Type) == "error"
}

// cfErrFuncs: which functions / methods of the two packages return an error as their last result
var cfErrFuncs map[string]bool

func (c *ctx) cfCollect() {
	cfErrFuncs = map[string]bool{}
	add := func(files map[string]*ast.File, prefix string) {
		for _, f := range files {
			for _, d := range f.Decls {
				switch t := d.(type) {
				case *ast.FuncDecl:
					if !lastIsError(t.Type) {
						continue
					}
					if t.Recv != nil {
						cfErrFuncs["."+t.Name.Name] = true
					} else {
						cfErrFuncs[prefix+t.Name.Name] = true
					}
				case *ast.GenDecl:
					for _, s := range t.Specs {
						ts, ok := s.(*ast.TypeSpec)
						if !ok {
							continue
						}
						if it, ok := ts.Type.(*ast.InterfaceType); ok {
							for _, m := range it.Methods.List {
								if ft, ok := m.Type.(*ast.FuncType); ok && lastIsError(ft) && len(m.Names) > 0 {
									cfErrFuncs["."+m.Names[0].Name] = true
								}
							}
						}
					}
				}
			}
		}
	}
	add(c.files, "desync.")
	add(c.cmd, "")
}

func (w *cfWalker) returnsError(name string) bool {
	return cfErrFuncs[name] || cfStdErr[name] || name == "opt.validate"
}

// callOf unwraps an expression down to the call it consists of
func callOf(e ast.Expr) *ast.CallExpr {
	switch t := e.(type) {
	case *ast.CallExpr:
		return t
	case *ast.ParenExpr:
		return callOf(t.X)
	}
	return nil
}

func (w *cfWalker) isHook(call *ast.CallExpr) bool {
	n := w.calleeName(call)
	n = strings.TrimPrefix(n, ".")
	n = strings.TrimPrefix(n, "desync.")
	// the hooks are unexported functions named verif<Upper…> (verifYield, verifPool, …); VerifyIndex is not one
	return len(n) > 5 && strings.HasPrefix(n, "verif") && n[5] >= 'A' && n[5] <= 'Z'
}

// statement-position calls whose error result is of no consequence for the flow
func cfBenign(name string) bool {
	switch name {
	case ".Close", "os.Remove", ".Finish", ".Start", ".SetTotal", "fmt.Fprintln", "fmt.Fprintf", "fmt.Printf", "fmt.Println",
		"fmt.Fscanln", ".Write", ".Add", ".Done", ".Wait", ".Warning", ".Info", ".Debug", ".Error":
		return true
	}
	return false
}

func (w *cfWalker) errVarOf(e ast.Expr) string {
	if id, ok := e.(*ast.Ident); ok && (w.errVars[id.Name] || id.Name == "err") {
		return id.Name
	}
	return ""
}

func (w *cfWalker) mentions(e ast.Expr, name string) bool {
	found := false
	walk(e, func(n ast.Node) bool {
		if id, ok := n.(*ast.Ident); ok && id.Name == name {
			found = true
		}
		return true
	})
	return found
}

// errBody classifies the body of `if <errvar> != nil { … }`
func (w *cfWalker) errBody(body *ast.BlockStmt, v string) string {
	for _, st := range body.List {
		if rs, ok := st.(*ast.ReturnStmt); ok {
			if len(rs.Results) == 0 {
				return "log"
			}
			last := rs.Results[len(rs.Results)-1]
			if id, ok := last.(*ast.Ident); ok && id.Name == v {
				return "propagate"
			}
			if exprString(last) == "nil" {
				return "returnNil"
			}
			return "wrap" // some error is returned (the original inside another, or a fresh one)
		}
		if es, ok := st.(*ast.ExprStmt); ok {
			if call := callOf(es.X); call != nil {
				n := w.calleeName(call)
				if n == "die" || n == "os.Exit" || n == "panic" {
					return "wrap"
				}
			}
		}
	}
	return "log"
}

func (w *cfWalker) setPending(v, onErr string) bool {
	ps := w.pending[v]
	if len(ps) == 0 {
		return false
	}
	for _, p := range ps {
		p.onErr = onErr
	}
	delete(w.pending, v)
	return true
}

// assign handles `lhs… (:=|=) call(…)`; returns the statements it stands for
func (w *cfWalker) assign(as *ast.AssignStmt, guard *cfCond) []*cfStmt {
	if len(as.Rhs) != 1 {
		return nil
	}
	call := callOf(as.Rhs[0])
	if call == nil {
		if as.Tok == token.DEFINE && len(as.Lhs) == 1 {
			if id, ok := as.Lhs[0].(*ast.Ident); ok {
				if _, seen := w.alias[id.Name]; seen {
					delete(w.alias, id.Name)
				} else {
					w.alias[id.Name] = as.Rhs[0]
				}
			}
		}
		return nil
	}
	if w.isHook(call) {
		return nil
	}
	name := w.calleeName(call)
	ev := ""
	for _, l := range as.Lhs {
		if v := w.errVarOf(l); v != "" {
			ev = v
		}
	}
	if ev == "" && w.returnsError(name) && !cfBenign(name) {
		// an error variable under another name: the last result of a call that returns an error
		if id, ok := as.Lhs[len(as.Lhs)-1].(*ast.Ident); ok && id.Name != "_" {
			ev = id.Name
			w.errVars[ev] = true
		}
	}
	if ev == "" && !w.returnsError(name) {
		// a pure call: remember context constructors and the like for look-through
		if as.Tok == token.DEFINE {
			for _, l := range as.Lhs {
				if id, ok := l.(*ast.Ident); ok && id.Name != "_" {
					w.alias[id.Name] = as.Rhs[0]
				}
			}
		}
		return nil
	}
	if ev == "" && cfBenign(name) {
		return nil
	}
	st := &cfStep{callee: name, ctx: w.ctxOf(call), onErr: "ignore"}
	if ev != "" {
		if len(w.pending[ev]) > 0 {
			// the previous error in this variable is overwritten without having been looked at: it stays "ignore"
			delete(w.pending, ev)
		}
		w.pending[ev] = []*cfStep{st}
	}
	if guard != nil && as.Tok == token.ASSIGN {
		for _, l := range as.Lhs {
			if id, ok := l.(*ast.Ident); ok && w.declared[id.Name] {
				w.nilGuard[id.Name] = guard
			}
		}
	}
	return []*cfStmt{{kind: "step", step: st}}
}

func (w *cfWalker) block(list []ast.Stmt, guard *cfCond) []*cfStmt {
	var out []*cfStmt
	for _, s := range list {
		out = append(out, w.stmt(s, guard)...)
	}
	// `step (propagate|wrap); return nil` is `return step`
	for i := 0; i+1 < len(out); i++ {
		if out[i].kind == "step" && out[i+1].kind == "retNil" && (out[i].step.onErr == "propagate" || out[i].step.onErr == "wrap") {
			out[i].kind = "ret"
			out = append(out[:i+1], out[i+2:]...)
		}
	}
	for _, o := range out {
		if o.kind == "retNil" {
			o.name = ""
		}
	}
	return out
}

func hasSteps(ss []*cfStmt) bool {
	for _, s := range ss {
		switch s.kind {
		case "cond":
			if hasSteps(s.thn) || hasSteps(s.els) {
				return true
			}
		case "loop":
			if hasSteps(s.thn) {
				return true
			}
		default:
			return true
		}
	}
	return false
}

func (w *cfWalker) stmt(s ast.Stmt, guard *cfCond) []*cfStmt {
	switch t := s.(type) {
	case *ast.BlockStmt:
		return w.block(t.List, guard)
	case *ast.LabeledStmt:
		return w.stmt(t.Stmt, guard)
	case *ast.DeclStmt:
		if gd, ok := t.Decl.(*ast.GenDecl); ok && gd.Tok == token.VAR {
			for _, sp := range gd.Specs {
				vs := sp.(*ast.ValueSpec)
				for i, n := range vs.Names {
					if vs.Type != nil && exprString(vs.Type) == "error" {
						w.errVars[n.Name] = true
					}
					if len(vs.Values) == 0 {
						w.declared[n.Name] = true
					} else if i < len(vs.Values) {
						w.alias[n.Name] = vs.Values[i]
					}
				}
			}
		}
		return nil
	case *ast.AssignStmt:
		return w.assign(t, guard)
	case *ast.ExprStmt:
		call := callOf(t.X)
		if call == nil || w.isHook(call) {
			return nil
		}
		name := w.calleeName(call)
		if !w.returnsError(name) || cfBenign(name) {
			return nil
		}
		return []*cfStmt{{kind: "step", step: &cfStep{callee: name, ctx: w.ctxOf(call), onErr: "ignore"}}}
	case *ast.DeferStmt:
		if w.isHook(t.Call) {
			return nil
		}
		if _, ok := t.Call.Fun.(*ast.FuncLit); ok {
			w.bad("deferred closure")
			return nil
		}
		return []*cfStmt{{kind: "deferred", name: w.calleeName(t.Call)}}
	case *ast.GoStmt:
		fl, ok := t.Call.Fun.(*ast.FuncLit)
		if !ok {
			w.bad("go statement without a closure")
			return nil
		}
		var out []*cfStmt
		for _, gs := range fl.Body.List {
			as, ok := gs.(*ast.AssignStmt)
			if !ok || len(as.Rhs) != 1 || len(as.Lhs) != 1 {
				continue
			}
			call := callOf(as.Rhs[0])
			v := w.errVarOf(as.Lhs[0])
			if call == nil || v == "" {
				continue
			}
			st := &cfStep{callee: w.calleeName(call), ctx: w.ctxOf(call), onErr: "propagate"}
			w.spawned[v] = st.callee
			out = append(out, &cfStmt{kind: "spawn", step: st})
		}
		return out
	case *ast.ReturnStmt:
		if len(t.Results) == 0 {
			w.bad("bare return")
			return nil
		}
		last := t.Results[len(t.Results)-1]
		if exprString(last) == "nil" {
			return []*cfStmt{{kind: "retNil"}}
		}
		if v := w.errVarOf(last); v != "" {
			if c, ok := w.spawned[v]; ok {
				return []*cfStmt{{kind: "join", name: c, onErr: "propagate"}, {kind: "retNil"}}
			}
			ps := w.pending[v]
			if w.setPending(v, "propagate") {
				mark := ""
				if len(ps) == 1 {
					mark = "from-err:" + fmt.Sprintf("%p", ps[0])
				}
				return []*cfStmt{{kind: "retNil", name: mark}}
			}
			return []*cfStmt{{kind: "retNil"}} // the variable was looked at before: it is nil here
		}
		if call := callOf(last); call != nil {
			name := w.calleeName(call)
			if name == "errors.Wrap" || name == "errors.Wrapf" || name == "errors.WithStack" || name == "fmt.Errorf" || name == "errors.New" {
				for v, ps := range w.pending {
					if len(ps) > 0 && w.mentions(call, v) {
						mark := ""
						if len(ps) == 1 {
							mark = "from-err:" + fmt.Sprintf("%p", ps[0])
						}
						w.setPending(v, "wrap")
						return []*cfStmt{{kind: "retNil", name: mark}}
					}
				}
				return []*cfStmt{{kind: "fail"}}
			}
			if w.returnsError(name) || len(t.Results) == 1 {
				return []*cfStmt{{kind: "ret", step: &cfStep{callee: name, ctx: w.ctxOf(call), onErr: "propagate"}}}
			}
		}
		w.bad("return " + exprString(last))
		return nil
	case *ast.IfStmt:
		var out []*cfStmt
		if t.Init != nil {
			out = append(out, w.stmt(t.Init, guard)...)
		}
		// an error check?
		if be, ok := t.Cond.(*ast.BinaryExpr); ok && exprString(be.Y) == "nil" && (be.Op == token.NEQ || be.Op == token.EQL) {
			if v := w.errVarOf(be.X); v != "" {
				if be.Op == token.EQL || t.Else != nil {
					w.bad("error check with an else branch or `== nil`")
					return out
				}
				how := w.errBody(t.Body, v)
				if c, ok := w.spawned[v]; ok {
					return append(out, &cfStmt{kind: "join", name: c, onErr: how})
				}
				if !w.setPending(v, how) {
					// nothing pending: the variable is known to be nil, the branch is dead
				}
				return out
			}
		}
		c := w.condOf(t.Cond)
		g := c
		if guard != nil {
			g = &cfCond{op: "and", a: guard, b: c}
		}
		saved := w.snapshotPending()
		thn := w.block(t.Body.List, g)
		afterThen := w.snapshotPending()
		w.pending = saved
		var els []*cfStmt
		if t.Else != nil {
			ng := cfNot(c)
			if guard != nil {
				ng = &cfCond{op: "and", a: guard, b: ng}
			}
			els = w.stmt(t.Else, ng)
		}
		// what is pending after the statement: what either branch left pending
		for v, ps := range afterThen {
			have := map[*cfStep]bool{}
			for _, p := range w.pending[v] {
				have[p] = true
			}
			for _, p := range ps {
				if !have[p] {
					w.pending[v] = append(w.pending[v], p)
				}
			}
		}
		if !hasSteps(thn) && !hasSteps(els) {
			return out
		}
		return append(out, &cfStmt{kind: "cond", cond: c, thn: thn, els: els})
	case *ast.SwitchStmt:
		if t.Init != nil {
			w.stmt(t.Init, guard)
		}
		type arm struct {
			c    *cfCond
			body []*cfStmt
		}
		var arms []arm
		var def []*cfStmt
		any := false
		for _, cl := range t.Body.List {
			cc := cl.(*ast.CaseClause)
			var c *cfCond
			for _, v := range cc.List {
				var a *cfCond
				if t.Tag != nil {
					a = &cfCond{op: "atom", name: w.canon(t.Tag) + "==" + w.canon(v)}
				} else {
					a = w.condOf(v)
				}
				if c == nil {
					c = a
				} else {
					c = &cfCond{op: "or", a: c, b: a}
				}
			}
			body := w.block(cc.Body, guard)
			if hasSteps(body) {
				any = true
			}
			if c == nil {
				def = body
			} else {
				arms = append(arms, arm{c, body})
			}
		}
		if !any {
			return nil
		}
		cur := def
		for i := len(arms) - 1; i >= 0; i-- {
			cur = []*cfStmt{{kind: "cond", cond: arms[i].c, thn: arms[i].body, els: cur}}
		}
		return cur
	case *ast.RangeStmt:
		body := w.block(t.Body.List, guard)
		if !hasSteps(body) {
			return nil
		}
		cf := false
		walk(t.Body, func(n ast.Node) bool {
			if b, ok := n.(*ast.BranchStmt); ok && (b.Tok == token.BREAK || b.Tok == token.CONTINUE || b.Tok == token.GOTO) {
				cf = true
			}
			return true
		})
		if cf {
			w.bad("break/continue inside a loop with effectful calls")
		}
		return []*cfStmt{{kind: "loop", name: w.canon(t.X), thn: body}}
	case *ast.ForStmt:
		// the confirmation prompt of prune: a loop that reads an answer from stdin and may `return nil`
		reads, retNil := false, false
		walk(t.Body, func(n ast.Node) bool {
			if call, ok := n.(*ast.CallExpr); ok && strings.HasPrefix(exprString(call.Fun), "fmt.Fscan") {
				reads = true
			}
			if rs, ok := n.(*ast.ReturnStmt); ok && len(rs.Results) == 1 && exprString(rs.Results[0]) == "nil" {
				retNil = true
			}
			return true
		})
		saved := w.complete
		body := w.block(t.Body.List, guard)
		if reads && !hasStepsOtherThanRetNil(body) {
			w.complete = saved
			if retNil {
				return []*cfStmt{{kind: "mayStop", name: "confirm"}}
			}
			return nil
		}
		if hasSteps(body) {
			w.bad("for loop with effectful calls")
		}
		return nil
	case *ast.TypeSwitchStmt, *ast.SelectStmt:
		found := false
		walk(t, func(n ast.Node) bool {
			if call, ok := n.(*ast.CallExpr); ok && w.returnsError(w.calleeName(call)) && !cfBenign(w.calleeName(call)) {
				found = true
			}
			if _, ok := n.(*ast.ReturnStmt); ok {
				found = true
			}
			return true
		})
		if found {
			w.bad("type switch / select with calls or returns")
		}
		return nil
	}
	return nil
}

func hasStepsOtherThanRetNil(ss []*cfStmt) bool {
	for _, s := range ss {
		switch s.kind {
		case "retNil":
		case "cond":
			if hasStepsOtherThanRetNil(s.thn) || hasStepsOtherThanRetNil(s.els) {
				return true
			}
		default:
			return true
		}
	}
	return false
}

func (w *cfWalker) snapshotPending() map[string][]*cfStep {
	m := map[string][]*cfStep{}
	for k, v := range w.pending {
		m[k] = append([]*cfStep{}, v...)
	}
	return m
}

// flowOf translates one function
func (c *ctx) flowOf(fd *ast.FuncDecl) ([]*cfStmt, bool, []string) {
	w := &cfWalker{c: c, pkgs: map[string]bool{}, errVars: map[string]bool{}, pending: map[string][]*cfStep{}, spawned: map[string]string{},
		alias: map[string]ast.Expr{}, nilGuard: map[string]*cfCond{}, declared: map[string]bool{}, complete: true}
	for _, f := range c.cmd {
		for _, d := range f.Decls {
			if d == ast.Decl(fd) {
				w.file = f
			}
		}
	}
	if w.file != nil {
		for _, im := range w.file.Imports {
			p := strings.Trim(im.Path.Value, `"`)
			n := p[strings.LastIndex(p, "/")+1:]
			if im.Name != nil {
				n = im.Name.Name
			}
			w.pkgs[n] = true
		}
	}
	w.ctxParam = paramOfType(fd, "context.Context")
	if fd.Type.Results != nil {
		for _, r := range fd.Type.Results.List {
			if exprString(r.Type) == "error" {
				for _, n := range r.Names {
					w.errVars[n.Name] = true
				}
			}
		}
	}
	body := w.block(fd.Body.List, nil)
	// a pending error nobody looked at stays "ignore"
	return body, w.complete, w.why
}

// ---------------------------------------------------------------------------------------
// Lean output

func cfCondLean(c *cfCond) string {
	switch c.op {
	case "atom":
		return fmt.Sprintf("(.atom %q)", c.name)
	case "not":
		return "(.not " + cfCondLean(c.a) + ")"
	}
	return "(." + c.op + " " + cfCondLean(c.a) + " " + cfCondLean(c.b) + ")"
}

func cfStepLean(s *cfStep) string {
	return fmt.Sprintf("⟨%q, .%s, .%s⟩", s.callee, s.ctx, s.onErr)
}

func cfBlockLean(ss []*cfStmt, ind string) string {
	if len(ss) == 0 {
		return ".nil"
	}
	s := ss[0]
	var h string
	switch s.kind {
	case "step", "ret", "spawn":
		h = "." + s.kind + " " + cfStepLean(s.step)
	case "fail", "retNil":
		h = "." + s.kind
	case "deferred":
		h = fmt.Sprintf(".deferred %q", s.name)
	case "mayStop":
		h = fmt.Sprintf(".mayStop %q", s.name)
	case "join":
		h = fmt.Sprintf(".join %q .%s", s.name, s.onErr)
	case "cond":
		h = ".cond " + cfCondLean(s.cond) + "\n" + ind + "    (" + cfBlockLean(s.thn, ind+"    ") + ")\n" + ind + "    (" + cfBlockLean(s.els, ind+"    ") + ")"
	case "loop":
		h = fmt.Sprintf(".loop %q\n%s    (%s)", s.name, ind, cfBlockLean(s.thn, ind+"    "))
	}
	return ".cons (" + h + ")\n" + ind + "(" + cfBlockLean(ss[1:], ind) + ")"
}

func cfText(ss []*cfStmt, ind string, sb *strings.Builder) {
	for _, s := range ss {
		switch s.kind {
		case "step", "ret", "spawn":
			fmt.Fprintf(sb, "%s%s %s ctx=%s err=%s\n", ind, s.kind, s.step.callee, s.step.ctx, s.step.onErr)
		case "cond":
			fmt.Fprintf(sb, "%sif %s\n", ind, cfCondLean(s.cond))
			cfText(s.thn, ind+"  ", sb)
			if len(s.els) > 0 {
				fmt.Fprintf(sb, "%selse\n", ind)
				cfText(s.els, ind+"  ", sb)
			}
		case "loop":
			fmt.Fprintf(sb, "%sfor range %s\n", ind, s.name)
			cfText(s.thn, ind+"  ", sb)
		case "join":
			fmt.Fprintf(sb, "%sjoin %s err=%s\n", ind, s.name, s.onErr)
		default:
			fmt.Fprintf(sb, "%s%s %s\n", ind, s.kind, s.name)
		}
	}
}

var cfFlowFuncs = []string{"runMake", "runChop", "runCache", "runTar", "runVerifyIndex", "runExtract", "runUntar", "runPrune",
	"runCat", "runVerify", "runPull", "readCaibxFile", "storeCaibxFile", "writeWithTmpFile", "writeInplace"}

func (c *ctx) cmdFlowFacts() {
	c.cfCollect()
	c.lean.WriteString("\n/-! cmd/desync: the command functions as flows (Model/CmdFlow.lean) -/\n")
	flows := map[string]string{}
	for _, fn := range cfFlowFuncs {
		fd := c.funcDecl(c.cmd, "", fn)
		found := fd != nil && fd.Body != nil
		var body []*cfStmt
		complete := false
		var why []string
		if found {
			body, complete, why = c.flowOf(fd)
		}
		c.site("cmdflow_"+fn, found && complete)
		if !found {
			fmt.Fprintf(&c.lean, "-- SITE NOT FOUND: cmdflow_%s\n", fn)
		} else if !complete {
			fmt.Fprintf(&c.lean, "-- SITE NOT FOUND: cmdflow_%s (not understood: %s)\n", fn, strings.Join(why, "; "))
		}
		fmt.Fprintf(&c.lean, "def cmdflow_%s : Desync.Cmd.Flow := { name := %q, complete := %v, body :=\n  (%s) }\n", fn, fn, found && complete,
			cfBlockLean(body, "  "))
		var sb strings.Builder
		cfText(body, "", &sb)
		flows[fn] = sb.String()
	}
	c.facts["cmdflows"] = flows
	c.cmdMainFacts()
	c.cmdCatFacts()
}

// cmdFuncNotWindows: the declaration of a function of cmd/desync, looked up in file-name order and not in the
// *_windows.go variants (two files may declare the same constructor under different build constraints)
func (c *ctx) cmdFuncNotWindows(name string) *ast.FuncDecl {
	var files []string
	for n := range c.cmd {
		if !strings.HasSuffix(n, "_windows.go") {
			files = append(files, n)
		}
	}
	sort.Strings(files)
	for _, n := range files {
		for _, d := range c.cmd[n].Decls {
			if fd, ok := d.(*ast.FuncDecl); ok && fd.Recv == nil && fd.Name.Name == name {
				return fd
			}
		}
	}
	return nil
}

// main(): the signal handler, the exit status, and how every command constructor wires its run function
func (c *ctx) cmdMainFacts() {
	fd := c.funcDecl(c.cmd, "", "main")
	var signals []string
	handlerCancels, fromWithCancel, exitChecked := false, false, false
	exitCode := "0"
	ctxVar, cancelVar, sigChan := "", "", ""
	type reg struct {
		ctor, runFn                string
		runE, passesCtx, gotMainCtx bool
	}
	var regs []reg
	if fd != nil {
		exits := 0
		walk(fd.Body, func(n ast.Node) bool {
			switch t := n.(type) {
			case *ast.AssignStmt:
				if len(t.Lhs) == 2 && len(t.Rhs) == 1 {
					if call := callOf(t.Rhs[0]); call != nil && exprString(call.Fun) == "context.WithCancel" && len(call.Args) == 1 {
						ctxVar, cancelVar = exprString(t.Lhs[0]), exprString(t.Lhs[1])
						fromWithCancel = exprString(call.Args[0]) == "context.Background()"
					}
				}
			case *ast.CallExpr:
				switch exprString(t.Fun) {
				case "os.Exit":
					exits++
				}
			}
			return true
		})
		// the handler goroutine: `<-ch` followed by `cancel()`
		walk(fd.Body, func(n ast.Node) bool {
			gs, ok := n.(*ast.GoStmt)
			if !ok {
				return true
			}
			fl, ok := gs.Call.Fun.(*ast.FuncLit)
			if !ok {
				return true
			}
			recv := ""
			for _, st := range fl.Body.List {
				es, ok := st.(*ast.ExprStmt)
				if !ok {
					continue
				}
				if u, ok := es.X.(*ast.UnaryExpr); ok && u.Op == token.ARROW && recv == "" {
					recv = exprString(u.X)
				}
				if call := callOf(es.X); call != nil && exprString(call.Fun) == cancelVar && cancelVar != "" && recv != "" {
					sigChan = recv
					handlerCancels = true
				}
			}
			return true
		})
		walk(fd.Body, func(n ast.Node) bool {
			call, ok := n.(*ast.CallExpr)
			if ok && exprString(call.Fun) == "signal.Notify" && len(call.Args) >= 1 && exprString(call.Args[0]) == sigChan && sigChan != "" {
				for _, a := range call.Args[1:] {
					signals = append(signals, exprString(a))
				}
			}
			return true
		})
		// `if err := rootCmd.Execute(); err != nil { os.Exit(k) }`
		walk(fd.Body, func(n ast.Node) bool {
			is, ok := n.(*ast.IfStmt)
			if !ok || is.Init == nil {
				return true
			}
			as, ok := is.Init.(*ast.AssignStmt)
			if !ok || len(as.Rhs) != 1 {
				return true
			}
			call := callOf(as.Rhs[0])
			if call == nil || !strings.HasSuffix(exprString(call.Fun), ".Execute") {
				return true
			}
			be, ok := is.Cond.(*ast.BinaryExpr)
			if !ok || be.Op != token.NEQ || exprString(be.Y) != "nil" || exprString(be.X) != exprString(as.Lhs[0]) {
				return true
			}
			for _, st := range is.Body.List {
				if es, ok := st.(*ast.ExprStmt); ok {
					if ex := callOf(es.X); ex != nil && exprString(ex.Fun) == "os.Exit" && len(ex.Args) == 1 {
						if v, ok := c.evalConst(ex.Args[0]); ok {
							exitCode = v.String()
							exitChecked = exits == 1 && is.Else == nil
						}
					}
				}
			}
			return true
		})
		// the constructors registered under the root command
		walk(fd.Body, func(n ast.Node) bool {
			call, ok := n.(*ast.CallExpr)
			if !ok || !strings.HasSuffix(exprString(call.Fun), ".AddCommand") {
				return true
			}
			for _, a := range call.Args {
				cc := callOf(a)
				if cc == nil {
					continue
				}
				r := reg{ctor: exprString(cc.Fun)}
				r.gotMainCtx = len(cc.Args) >= 1 && exprString(cc.Args[0]) == ctxVar && ctxVar != ""
				if cd := c.cmdFuncNotWindows(r.ctor); cd != nil && cd.Body != nil {
					cp := paramOfType(cd, "context.Context")
					walk(cd.Body, func(m ast.Node) bool {
						kv, ok := m.(*ast.KeyValueExpr)
						if !ok {
							return true
						}
						k := exprString(kv.Key)
						if k != "RunE" && k != "Run" {
							return true
						}
						fl, ok := kv.Value.(*ast.FuncLit)
						if !ok {
							return true
						}
						for _, st := range fl.Body.List {
							var rc *ast.CallExpr
							switch u := st.(type) {
							case *ast.ReturnStmt:
								if len(u.Results) == 1 {
									rc = callOf(u.Results[0])
								}
							case *ast.ExprStmt:
								rc = callOf(u.X)
							}
							if rc == nil || !strings.HasPrefix(exprString(rc.Fun), "run") {
								continue
							}
							_, isRet := st.(*ast.ReturnStmt)
							r.runFn = exprString(rc.Fun)
							r.runE = k == "RunE" && isRet
							r.passesCtx = len(rc.Args) >= 1 && exprString(rc.Args[0]) == cp && cp != ""
						}
						return true
					})
				}
				regs = append(regs, r)
			}
			return true
		})
	}
	// only the commands that have a run function taking the context are of interest (config, manpage, … have none)
	var lines []string
	for _, r := range regs {
		if r.runFn == "" {
			continue
		}
		lines = append(lines, fmt.Sprintf("⟨%q, %q, %v, %v, %v⟩", r.ctor, r.runFn, r.runE, r.passesCtx, r.gotMainCtx))
	}
	sort.Strings(signals)
	c.site("cmdflow_main", fd != nil && ctxVar != "")
	c.lean.WriteString("\n/-- `main`: signal handler, exit status, and how the command constructors wire their run functions -/\n")
	fmt.Fprintf(&c.lean, "def cmdflowMain : Desync.Cmd.MainShape :=\n  { signals := [%s]\n    handlerCancels := %v\n    ctxFromWithCancel := %v\n    exitOnError := %s\n    exitChecked := %v\n    commands := [\n      %s] }\n",
		quoteList(signals), handlerCancels, fromWithCancel, exitCode, exitChecked, strings.Join(lines, ",\n      "))
	c.facts["cmdflowMain"] = map[string]any{"signals": signals, "handlerCancels": handlerCancels, "exitOnError": exitCode, "commands": lines}
}

// runCat: Seek(offset, SeekStart), then CopyN(length) when length > 0, Copy otherwise
func (c *ctx) cmdCatFacts() {
	fd := c.funcDecl(c.cmd, "", "runCat")
	var seekOff, copyN, useN ast.Expr
	whence := ""
	copyAll := false
	if fd != nil {
		walk(fd.Body, func(n ast.Node) bool {
			switch t := n.(type) {
			case *ast.CallExpr:
				f := exprString(t.Fun)
				if strings.HasSuffix(f, ".Seek") && len(t.Args) == 2 {
					seekOff, whence = t.Args[0], exprString(t.Args[1])
				}
			case *ast.IfStmt:
				// the branch that holds CopyN decides when the length is used
				hasN, hasAll := false, false
				walk(t.Body, func(m ast.Node) bool {
					if call, ok := m.(*ast.CallExpr); ok && exprString(call.Fun) == "io.CopyN" && len(call.Args) == 3 {
						hasN, copyN = true, call.Args[2]
					}
					return true
				})
				if t.Else != nil {
					walk(t.Else, func(m ast.Node) bool {
						if call, ok := m.(*ast.CallExpr); ok && exprString(call.Fun) == "io.Copy" {
							hasAll = true
						}
						return true
					})
				}
				if hasN && hasAll {
					useN, copyAll = t.Cond, true
				}
			}
			return true
		})
	}
	env := map[string]string{"opt.offset": "offset", "opt.length": "length"}
	c.lean.WriteString("\n/-! cmd/desync/cat.go: offset and length -/\n")
	c.emitExpr("cmdflow_cat_seek", "catSeekOffset", "(offset length : Int)", "Int", seekOff, env, "0")
	fmt.Fprintf(&c.lean, "def catSeekWhence : String := %q\n", whence)
	c.emitExpr("cmdflow_cat_useLength", "catUseLength", "(offset length : Int)", "Bool", useN, env, "false")
	c.emitExpr("cmdflow_cat_copyN", "catCopyN", "(offset length : Int)", "Int", copyN, env, "0")
	c.site("cmdflow_cat_copyAll", copyAll)
	c.facts["catSeekWhence"] = whence
}
