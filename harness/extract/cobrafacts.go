package main

import (
	"fmt"
	"go/ast"
	"sort"
	"strings"
)

// cmd/desync: how the global options (--digest, --config, --verbose) reach every sub-command (C04, C05: "under either digest
// algorithm"; session 7, after seeded change C04-l).  cobra runs ONLY THE NEAREST PersistentPreRun(E) hook on the path from the
// command to the root, whereas functions registered with cobra.OnInitialize run for every command.  Facts:
//   cobraOnInitialize      the functions handed to cobra.OnInitialize anywhere in cmd/desync (names, sorted)
//   cobraPersistentHooks   "<constructor function>:<field>" for every cobra.Command literal (or assignment to a field of a
//                          command) that sets PersistentPreRun, PersistentPreRunE, PersistentPostRun or PersistentPostRunE
//   cobraDigestSetter      the functions of cmd/desync that assign desync.Digest
func (c *ctx) cobraFacts() {
	c.lean.WriteString("\n/-! cmd/desync: global initialisation and cobra's persistent hooks (C04, C05) -/\n")
	var onInit, hooks, setters []string
	foundRoot := false
	names := make([]string, 0, len(c.cmd))
	for n := range c.cmd {
		names = append(names, n)
	}
	sort.Strings(names)
	isHook := func(s string) bool {
		return s == "PersistentPreRun" || s == "PersistentPreRunE" || s == "PersistentPostRun" || s == "PersistentPostRunE"
	}
	for _, n := range names {
		f := c.cmd[n]
		if strings.HasSuffix(n, "_windows.go") {
			continue
		}
		for _, d := range f.Decls {
			fd, ok := d.(*ast.FuncDecl)
			if !ok || fd.Body == nil {
				continue
			}
			if fd.Name.Name == "newRootCommand" {
				foundRoot = true
			}
			ast.Inspect(fd.Body, func(x ast.Node) bool {
				switch t := x.(type) {
				case *ast.CallExpr:
					if exprString(t.Fun) == "cobra.OnInitialize" {
						for _, a := range t.Args {
							onInit = append(onInit, exprString(a))
						}
					}
				case *ast.CompositeLit:
					if strings.HasSuffix(exprString(t.Type), "cobra.Command") {
						for _, el := range t.Elts {
							if kv, ok := el.(*ast.KeyValueExpr); ok && isHook(exprString(kv.Key)) {
								hooks = append(hooks, fd.Name.Name+":"+exprString(kv.Key))
							}
						}
					}
				case *ast.AssignStmt:
					for _, l := range t.Lhs {
						if se, ok := l.(*ast.SelectorExpr); ok {
							if isHook(se.Sel.Name) {
								hooks = append(hooks, fd.Name.Name+":"+se.Sel.Name)
							}
							if exprString(se) == "desync.Digest" {
								setters = append(setters, fd.Name.Name)
							}
						}
					}
				}
				return true
			})
		}
	}
	sort.Strings(onInit)
	sort.Strings(hooks)
	sort.Strings(setters)
	emit := func(name, doc string, l []string) {
		fmt.Fprintf(&c.lean, "/-- %s -/\ndef %s : List String := [%s]\n", doc, name, quoteList(l))
		c.facts[name] = l
	}
	emit("cobraOnInitialize", "the functions handed to `cobra.OnInitialize` in cmd/desync", onInit)
	emit("cobraPersistentHooks", "`<function>:<field>` for every persistent hook set on a cobra command in cmd/desync", hooks)
	emit("cobraDigestSetter", "the functions of cmd/desync that assign `desync.Digest`", setters)
	c.site("cobra_root", foundRoot)
}
