package main

import (
	"fmt"
	"go/ast"
	"go/token"
	"sort"
	"strconv"
	"strings"
)

// mtreefs.go (C05) and the option plumbing of cmd/desync/{tar,untar,mtree}.go.
//
// mtreefs.go.  Every Create* method builds a slice of words and prints strings.Join(words, " ") with fmt.Fprintln.
// Extracted by symbolic evaluation of that slice: the words in order, each as (format, arguments) — a string literal is
// a format without verbs, `fmt.Sprintf(f, a…)` is (f, a…), `lit + e` is (lit%s, e), anything else (%s, e) —, a word
// chosen by an if/else as (cond ? a : b), the words added under the cases of a switch (CreateFile's digest) with what else
// the case does, the separator, whether the result of Fprintln is looked at, what is returned, and every top-level
// statement that is none of these (expected: none).  The receiver is renamed "fs", the node parameter "n", the slice
// "attr"; a local defined once by `x := e` is replaced by e.  mtreeFilename's predicate is EVALUATED for the 256 byte
// values (comparisons with integer / character literals, && || !), so that `c < 32`, `c <= 31` and `c < ' '` are the same
// fact; the branch bodies are recorded as the format they print with or the byte they write.
//
// cmd/desync.  For newTarCommand / newUntarCommand / newMtreeCommand the flag table (flag name -> option field, method,
// default); for the option structs their fields (embedded ones named); for runTar / runUntar / runMtree the guarded
// calls: every call of a constructor / entry point of the library, of os.Open / os.Create, io.Pipe, io.TeeReader, the
// index and store helpers and error constructors, and every use of os.Stdin / os.Stdout, with the conjunction of the
// conditions it stands under (an `if c { …; return }` contributes !c to what follows; a `case` contributes tag==label;
// a default the negation of all labels).  Locals defined once are replaced by their definition.  For LocalFS the
// condition each chown / chmod / lchown / mtime override stands under, per method.
func (c *ctx) mtreeFacts() {
	c.lean.WriteString("\n/-! mtreefs.go: the words of the four Create* methods, mtreeFilename's predicate (C05) -/\n")
	emitPairs := func(name, doc string, ps [][2]string) {
		q := make([]string, len(ps))
		for i, p := range ps {
			q[i] = fmt.Sprintf("(%q, %q)", p[0], p[1])
		}
		fmt.Fprintf(&c.lean, "/-- %s -/\ndef %s : List (String × String) := [%s]\n", doc, name, strings.Join(q, ", "))
		c.facts[name] = ps
	}
	emitList := func(name, doc string, l []string) {
		fmt.Fprintf(&c.lean, "/-- %s -/\ndef %s : List String := [%s]\n", doc, name, quoteList(l))
		c.facts[name] = l
	}
	emitStr := func(name, doc, s string) {
		fmt.Fprintf(&c.lean, "/-- %s -/\ndef %s : String := %q\n", doc, name, s)
		c.facts[name] = s
	}
	emitBool := func(name, doc string, b bool) {
		fmt.Fprintf(&c.lean, "/-- %s -/\ndef %s : Bool := %v\n", doc, name, b)
		c.facts[name] = b
	}

	// NewMtreeFS
	{
		fd := c.funcDecl(c.files, "", "NewMtreeFS")
		hdr, errVar, returned := "", "", false
		if fd != nil && fd.Body != nil {
			if len(fd.Type.Params.List) == 1 && len(fd.Type.Params.List[0].Names) == 1 {
				tarfsRename(fd, fd.Type.Params.List[0].Names[0], "w")
			}
			for _, st := range fd.Body.List {
				switch t := st.(type) {
				case *ast.AssignStmt:
					if len(t.Rhs) == 1 && len(t.Lhs) == 2 {
						if call, ok := t.Rhs[0].(*ast.CallExpr); ok && exprString(call.Fun) == "fmt.Fprintln" && len(call.Args) == 2 &&
							exprString(call.Args[0]) == "w" {
							if lit, ok := call.Args[1].(*ast.BasicLit); ok && lit.Kind == token.STRING {
								hdr, _ = strconv.Unquote(lit.Value)
								errVar = exprString(t.Lhs[1])
							}
						}
					}
				case *ast.ReturnStmt:
					if len(t.Results) == 2 && errVar != "" && errVar != "_" && exprString(t.Results[1]) == errVar {
						returned = true
					}
				}
			}
		}
		if !c.site("mtree_NewMtreeFS", fd != nil && hdr != "") {
			c.lean.WriteString("-- SITE NOT FOUND: mtree_NewMtreeFS\n")
		}
		emitStr("mtreeHeader", "`NewMtreeFS`: the line it prints first", hdr)
		emitBool("mtreeHeaderErrReturned", "`NewMtreeFS`: the error of that `Fprintln` is the error it returns", returned)
	}

	for _, m := range []string{"CreateDir", "CreateFile", "CreateSymlink", "CreateDevice"} {
		fd := c.funcDecl(c.files, "MtreeFS", m)
		r := mtreeCreate(fd)
		if !c.site("mtree_"+m, fd != nil && r.ok) {
			fmt.Fprintf(&c.lean, "-- SITE NOT FOUND: mtree_%s\n", m)
		}
		emitPairs("mtree"+m+"Words", "`MtreeFS."+m+"`: the words of the line in order, (format, arguments)", r.words)
		emitList("mtree"+m+"Print", "`MtreeFS."+m+"`: how the line is printed: callee, writer, separator, whether the result is looked at", r.print)
		emitList("mtree"+m+"Returns", "`MtreeFS."+m+"`: the top-level return values", r.returns)
		emitList("mtree"+m+"Other", "`MtreeFS."+m+"`: top-level statements that are neither words, the print nor a return", r.other)
		if m == "CreateFile" {
			emitStr("mtreeDigestSwitch", "`MtreeFS.CreateFile`: what the switch looks at", r.switchTag)
			emitPairs("mtreeDigestCases", "`MtreeFS.CreateFile`: case label -> what the case does (hash, copy with its error returned, the word added | the error returned)", r.cases)
		}
	}

	// mtreeFilename
	{
		fd := c.funcDecl(c.files, "", "mtreeFilename")
		esc, formats, plain, ok := mtreeEscapeTable(fd)
		if !c.site("mtree_filename", fd != nil && ok) {
			c.lean.WriteString("-- SITE NOT FOUND: mtree_filename\n")
		}
		q := make([]string, len(esc))
		for i, v := range esc {
			q[i] = fmt.Sprint(v)
		}
		fmt.Fprintf(&c.lean, "/-- `mtreeFilename`: the byte values that take a formatting branch -/\ndef mtreeEscapedBytes : List Nat := [%s]\n", strings.Join(q, ", "))
		c.facts["mtreeEscapedBytes"] = esc
		emitList("mtreeEscapeFormats", "`mtreeFilename`: format|arguments of the formatting branches", formats)
		emitList("mtreePlainWrites", "`mtreeFilename`: what the other branches do", plain)
	}

	// tarMode is what the mode words call
	{
		callers := []string{}
		for _, f := range c.files {
			for _, d := range f.Decls {
				fd, ok := d.(*ast.FuncDecl)
				if !ok || fd.Body == nil || fd.Recv == nil || len(fd.Recv.List) != 1 || typeName(fd.Recv.List[0].Type) != "MtreeFS" {
					continue
				}
				n := 0
				walk(fd.Body, func(x ast.Node) bool {
					if call, ok := x.(*ast.CallExpr); ok && exprString(call.Fun) == "tarMode" {
						n++
					}
					return true
				})
				if n > 0 {
					callers = append(callers, fmt.Sprintf("%s:%d", fd.Name.Name, n))
				}
			}
		}
		sort.Strings(callers)
		emitList("mtreeTarModeCalls", "the methods of `MtreeFS` that call `tarMode`, with the number of calls", callers)
	}

	c.cmdGlueFacts(emitPairs, emitList)
}

// ---------------------------------------------------------------------------------------

type mtreeCreateFacts struct {
	ok        bool
	words     [][2]string
	print     []string
	returns   []string
	other     []string
	switchTag string
	cases     [][2]string
}

// replace identifiers by their single definitions (a copy; only the node kinds that occur in these functions)
func mtInline(e ast.Expr, defs map[string]ast.Expr, depth int) ast.Expr {
	if depth > 6 {
		return e
	}
	switch t := e.(type) {
	case *ast.Ident:
		if d, ok := defs[t.Name]; ok {
			return mtInline(d, defs, depth+1)
		}
	case *ast.CallExpr:
		n := *t
		n.Fun = mtInline(t.Fun, defs, depth)
		n.Args = make([]ast.Expr, len(t.Args))
		for i, a := range t.Args {
			n.Args[i] = mtInline(a, defs, depth)
		}
		return &n
	case *ast.SelectorExpr:
		n := *t
		n.X = mtInline(t.X, defs, depth)
		return &n
	case *ast.BinaryExpr:
		n := *t
		n.X, n.Y = mtInline(t.X, defs, depth), mtInline(t.Y, defs, depth)
		return &n
	case *ast.UnaryExpr:
		n := *t
		n.X = mtInline(t.X, defs, depth)
		return &n
	case *ast.ParenExpr:
		return mtInline(t.X, defs, depth)
	case *ast.IndexExpr:
		n := *t
		n.X, n.Index = mtInline(t.X, defs, depth), mtInline(t.Index, defs, depth)
		return &n
	}
	return e
}

// single-assignment locals of a function: defined by `x := e` (one name, one value) and never assigned again
func mtSingleDefs(fd *ast.FuncDecl, keep map[string]bool) map[string]ast.Expr {
	count := map[string]int{}
	defs := map[string]ast.Expr{}
	walk(fd.Body, func(n ast.Node) bool {
		switch t := n.(type) {
		case *ast.AssignStmt:
			for i, l := range t.Lhs {
				if id, ok := l.(*ast.Ident); ok {
					count[id.Name]++
					if t.Tok == token.DEFINE && len(t.Lhs) == 1 && len(t.Rhs) == 1 {
						defs[id.Name] = t.Rhs[i]
					} else {
						count[id.Name]++
					}
				}
			}
		case *ast.IncDecStmt:
			if id, ok := t.X.(*ast.Ident); ok {
				count[id.Name] += 2
			}
		case *ast.ValueSpec:
			for _, id := range t.Names {
				count[id.Name] += 2
			}
		case *ast.UnaryExpr:
			if t.Op == token.AND {
				if id, ok := t.X.(*ast.Ident); ok {
					count[id.Name] += 2
				}
			}
		}
		return true
	})
	out := map[string]ast.Expr{}
	for n, e := range defs {
		if count[n] == 1 && !keep[n] {
			if _, isLit := e.(*ast.CompositeLit); isLit {
				continue
			}
			if _, isFn := e.(*ast.FuncLit); isFn {
				continue
			}
			out[n] = e
		}
	}
	return out
}

func mtWord(e ast.Expr, defs map[string]ast.Expr) (format, args string) {
	e = mtInline(e, defs, 0)
	switch t := e.(type) {
	case *ast.BasicLit:
		if t.Kind == token.STRING {
			s, _ := strconv.Unquote(t.Value)
			return strings.ReplaceAll(s, "%", "%%"), ""
		}
	case *ast.CallExpr:
		if exprString(t.Fun) == "fmt.Sprintf" && len(t.Args) >= 1 {
			if lit, ok := t.Args[0].(*ast.BasicLit); ok && lit.Kind == token.STRING {
				s, _ := strconv.Unquote(lit.Value)
				a := []string{}
				for _, x := range t.Args[1:] {
					a = append(a, exprString(x))
				}
				return s, strings.Join(a, ",")
			}
		}
	case *ast.BinaryExpr:
		if t.Op == token.ADD {
			f1, a1 := mtWord(t.X, defs)
			f2, a2 := mtWord(t.Y, defs)
			a := a1
			if a1 != "" && a2 != "" {
				a = a1 + "," + a2
			} else if a2 != "" {
				a = a2
			}
			return f1 + f2, a
		}
	}
	return "%s", exprString(e)
}

// `attr = append(attr, e…)` -> e…
func mtAppendArgs(st ast.Stmt, slice string) ([]ast.Expr, bool) {
	as, ok := st.(*ast.AssignStmt)
	if !ok || len(as.Lhs) != 1 || len(as.Rhs) != 1 || exprString(as.Lhs[0]) != slice {
		return nil, false
	}
	call, ok := as.Rhs[0].(*ast.CallExpr)
	if !ok || exprString(call.Fun) != "append" || len(call.Args) < 2 || exprString(call.Args[0]) != slice || call.Ellipsis != token.NoPos {
		return nil, false
	}
	return call.Args[1:], true
}

func mtreeCreate(fd *ast.FuncDecl) (r mtreeCreateFacts) {
	r.words, r.print, r.returns, r.other, r.cases = [][2]string{}, []string{}, []string{}, []string{}, [][2]string{}
	if fd == nil || fd.Body == nil {
		return
	}
	if fd.Recv != nil && len(fd.Recv.List) == 1 && len(fd.Recv.List[0].Names) == 1 {
		tarfsRename(fd, fd.Recv.List[0].Names[0], "fs")
	}
	if fd.Type.Params != nil && len(fd.Type.Params.List) == 1 && len(fd.Type.Params.List[0].Names) == 1 {
		tarfsRename(fd, fd.Type.Params.List[0].Names[0], "n")
	}
	// the slice: the first local defined by a []string literal
	slice := ""
	for _, st := range fd.Body.List {
		if as, ok := st.(*ast.AssignStmt); ok && as.Tok == token.DEFINE && len(as.Lhs) == 1 && len(as.Rhs) == 1 {
			if lit, ok := as.Rhs[0].(*ast.CompositeLit); ok && exprString(lit.Type) == "[]string" {
				tarfsRename(fd, as.Lhs[0].(*ast.Ident), "attr")
				slice = "attr"
				break
			}
		}
	}
	if slice == "" {
		return
	}
	defs := mtSingleDefs(fd, map[string]bool{"attr": true, "fs": true, "n": true, "err": true})
	word := func(e ast.Expr) [2]string { f, a := mtWord(e, defs); return [2]string{f, a} }
	printed := false
	for _, st := range fd.Body.List {
		// the definition of the slice
		if as, ok := st.(*ast.AssignStmt); ok && as.Tok == token.DEFINE && len(as.Lhs) == 1 && exprString(as.Lhs[0]) == slice {
			for _, el := range as.Rhs[0].(*ast.CompositeLit).Elts {
				r.words = append(r.words, word(el))
			}
			continue
		}
		// a hoisted local
		if as, ok := st.(*ast.AssignStmt); ok && as.Tok == token.DEFINE && len(as.Lhs) == 1 {
			if _, inl := defs[exprString(as.Lhs[0])]; inl {
				continue
			}
		}
		if args, ok := mtAppendArgs(st, slice); ok {
			for _, a := range args {
				r.words = append(r.words, word(a))
			}
			continue
		}
		switch t := st.(type) {
		case *ast.IfStmt: // one word chosen by a condition
			if t.Init == nil && t.Else != nil && len(t.Body.List) == 1 {
				if eb, ok := t.Else.(*ast.BlockStmt); ok && len(eb.List) == 1 {
					a1, ok1 := mtAppendArgs(t.Body.List[0], slice)
					a2, ok2 := mtAppendArgs(eb.List[0], slice)
					if ok1 && ok2 && len(a1) == 1 && len(a2) == 1 {
						w1, w2 := word(a1[0]), word(a2[0])
						cond := exprString(mtInline(t.Cond, defs, 0))
						if strings.HasSuffix(cond, "==0") { // the same choice written the other way round
							cond = strings.TrimSuffix(cond, "==0") + "!=0"
							w1, w2 = w2, w1
						}
						if w1[1] == "" && w2[1] == "" {
							r.words = append(r.words, [2]string{"?:", cond + " ? " + w1[0] + " : " + w2[0]})
							continue
						}
					}
				}
			}
			r.other = append(r.other, "if "+exprString(t.Cond))
		case *ast.SwitchStmt:
			r.switchTag = exprString(mtInline(t.Tag, defs, 0))
			for _, cl := range t.Body.List {
				cc := cl.(*ast.CaseClause)
				label := "default"
				if cc.List != nil {
					ls := []string{}
					for _, l := range cc.List {
						ls = append(ls, exprString(l))
					}
					label = strings.Join(ls, ",")
				}
				ldefs := map[string]ast.Expr{}
				does := []string{}
				for _, s := range cc.Body {
					if args, ok := mtAppendArgs(s, slice); ok {
						for _, a := range args {
							f, x := mtWord(a, defs)
							for n, d := range ldefs { // the hash object of this case
								x = strings.ReplaceAll(x, n+".", exprString(d)+".")
							}
							does = append(does, "word "+f+"|"+x)
						}
						continue
					}
					switch u := s.(type) {
					case *ast.AssignStmt:
						if u.Tok == token.DEFINE && len(u.Lhs) == 1 && len(u.Rhs) == 1 {
							ldefs[exprString(u.Lhs[0])] = mtInline(u.Rhs[0], defs, 0)
							continue
						}
						does = append(does, "assign "+exprString(u.Lhs[0]))
					case *ast.IfStmt: // if _, err := io.Copy(h, n.Data); err != nil { return err }
						desc := "if " + exprString(u.Cond)
						if as, ok := u.Init.(*ast.AssignStmt); ok && len(as.Rhs) == 1 && len(as.Lhs) == 2 && len(u.Body.List) == 1 {
							if call, ok := as.Rhs[0].(*ast.CallExpr); ok {
								if ret, ok := u.Body.List[0].(*ast.ReturnStmt); ok && len(ret.Results) == 1 &&
									exprString(ret.Results[0]) == exprString(as.Lhs[1]) &&
									exprString(u.Cond) == exprString(as.Lhs[1])+"!=nil" {
									cs := exprString(mtInline(call, ldefs, 0))
									desc = "returns the error of " + cs
								}
							}
						}
						does = append(does, desc)
					case *ast.ReturnStmt:
						rs := []string{}
						for _, x := range u.Results {
							rs = append(rs, exprString(x))
						}
						does = append(does, "return "+strings.Join(rs, ","))
					default:
						does = append(does, fmt.Sprintf("%T", s))
					}
				}
				r.cases = append(r.cases, [2]string{label, strings.Join(does, "; ")})
			}
		case *ast.ExprStmt: // fmt.Fprintln(fs.w, strings.Join(attr, " ")) with its result dropped
			if call, ok := t.X.(*ast.CallExpr); ok && len(call.Args) == 2 {
				if j, ok := mtInline(call.Args[1], defs, 0).(*ast.CallExpr); ok && exprString(j.Fun) == "strings.Join" && len(j.Args) == 2 &&
					exprString(j.Args[0]) == slice {
					sep, _ := strconv.Unquote(exprString(j.Args[1]))
					r.print = append(r.print, exprString(call.Fun), exprString(call.Args[0]), sep, "result dropped")
					printed = true
					continue
				}
			}
			r.other = append(r.other, exprString(t.X))
		case *ast.AssignStmt: // `_, err := fmt.Fprintln(…)`: the result is looked at
			if len(t.Rhs) == 1 {
				if call, ok := t.Rhs[0].(*ast.CallExpr); ok && len(call.Args) == 2 && strings.HasPrefix(exprString(call.Fun), "fmt.Fprint") {
					if j, ok := mtInline(call.Args[1], defs, 0).(*ast.CallExpr); ok && exprString(j.Fun) == "strings.Join" && len(j.Args) == 2 {
						sep, _ := strconv.Unquote(exprString(j.Args[1]))
						r.print = append(r.print, exprString(call.Fun), exprString(call.Args[0]), sep, "result assigned")
						printed = true
						continue
					}
				}
			}
			r.other = append(r.other, "assign "+exprString(t.Lhs[0]))
		case *ast.ReturnStmt:
			rs := []string{}
			for _, x := range t.Results {
				rs = append(rs, exprString(x))
			}
			r.returns = append(r.returns, strings.Join(rs, ","))
		default:
			r.other = append(r.other, fmt.Sprintf("%T", st))
		}
	}
	r.ok = printed && len(r.words) > 0
	return
}

// evaluate a predicate over the byte variable
func mtEvalInt(e ast.Expr, v string, c int) (int, bool) {
	switch t := e.(type) {
	case *ast.Ident:
		if t.Name == v {
			return c, true
		}
	case *ast.BasicLit:
		switch t.Kind {
		case token.INT:
			n, err := strconv.ParseInt(t.Value, 0, 64)
			return int(n), err == nil
		case token.CHAR:
			s, err := strconv.Unquote(t.Value)
			if err == nil && len([]rune(s)) == 1 {
				return int([]rune(s)[0]), true
			}
		}
	case *ast.ParenExpr:
		return mtEvalInt(t.X, v, c)
	case *ast.CallExpr:
		if len(t.Args) == 1 {
			switch exprString(t.Fun) {
			case "byte", "int", "uint8", "rune", "uint", "int32":
				return mtEvalInt(t.Args[0], v, c)
			}
		}
	}
	return 0, false
}

func mtEvalBool(e ast.Expr, v string, c int) (bool, bool) {
	switch t := e.(type) {
	case *ast.ParenExpr:
		return mtEvalBool(t.X, v, c)
	case *ast.UnaryExpr:
		if t.Op == token.NOT {
			b, ok := mtEvalBool(t.X, v, c)
			return !b, ok
		}
	case *ast.BinaryExpr:
		switch t.Op {
		case token.LOR, token.LAND:
			a, ok1 := mtEvalBool(t.X, v, c)
			b, ok2 := mtEvalBool(t.Y, v, c)
			if t.Op == token.LOR {
				return a || b, ok1 && ok2
			}
			return a && b, ok1 && ok2
		case token.EQL, token.NEQ, token.LSS, token.LEQ, token.GTR, token.GEQ:
			x, ok1 := mtEvalInt(t.X, v, c)
			y, ok2 := mtEvalInt(t.Y, v, c)
			ok := ok1 && ok2
			switch t.Op {
			case token.EQL:
				return x == y, ok
			case token.NEQ:
				return x != y, ok
			case token.LSS:
				return x < y, ok
			case token.LEQ:
				return x <= y, ok
			case token.GTR:
				return x > y, ok
			default:
				return x >= y, ok
			}
		}
	}
	return false, false
}

// what a branch of mtreeFilename's loop does: "fmt <format>|<args>" or "byte <call>"
func mtBranch(body []ast.Stmt, builder string) string {
	out := []string{}
	for _, st := range body {
		es, ok := st.(*ast.ExprStmt)
		if !ok {
			out = append(out, fmt.Sprintf("%T", st))
			continue
		}
		call, ok := es.X.(*ast.CallExpr)
		if !ok {
			out = append(out, exprString(es.X))
			continue
		}
		fn := exprString(call.Fun)
		switch {
		case fn == builder+".WriteString" && len(call.Args) == 1:
			f, a := mtWord(call.Args[0], nil)
			out = append(out, "fmt "+f+"|"+a)
		case fn == "fmt.Fprintf" && len(call.Args) >= 2 && exprString(call.Args[0]) == "&"+builder:
			n := *call
			n.Fun = &ast.SelectorExpr{X: ast.NewIdent("fmt"), Sel: ast.NewIdent("Sprintf")}
			n.Args = call.Args[1:]
			f, a := mtWord(&n, nil)
			out = append(out, "fmt "+f+"|"+a)
		case fn == builder+".WriteByte" && len(call.Args) == 1:
			out = append(out, "byte "+exprString(call.Args[0]))
		default:
			out = append(out, exprString(call))
		}
	}
	return strings.Join(out, "; ")
}

func mtreeEscapeTable(fd *ast.FuncDecl) (esc []int, formats, plain []string, ok bool) {
	esc, formats, plain = []int{}, []string{}, []string{}
	if fd == nil || fd.Body == nil || len(fd.Type.Params.List) != 1 || len(fd.Type.Params.List[0].Names) != 1 {
		return
	}
	tarfsRename(fd, fd.Type.Params.List[0].Names[0], "s")
	// the builder
	builder := ""
	walk(fd.Body, func(n ast.Node) bool {
		if vs, ok := n.(*ast.ValueSpec); ok && exprString(vs.Type) == "strings.Builder" && len(vs.Names) == 1 {
			tarfsRename(fd, vs.Names[0], "b")
			builder = "b"
		}
		return true
	})
	var loop *ast.RangeStmt
	for _, st := range fd.Body.List {
		if rs, ok := st.(*ast.RangeStmt); ok && exprString(rs.X) == "[]byte(s)" && rs.Value != nil {
			loop = rs
		}
	}
	if loop == nil || builder == "" {
		return
	}
	tarfsRename(fd, loop.Value.(*ast.Ident), "c")
	if len(loop.Body.List) != 1 {
		return
	}
	// the branches in order: (condition | nil for the rest, body)
	type branch struct {
		cond ast.Expr
		body []ast.Stmt
	}
	var bs []branch
	switch t := loop.Body.List[0].(type) {
	case *ast.SwitchStmt:
		if t.Tag != nil || t.Init != nil {
			return
		}
		var def *branch
		for _, cl := range t.Body.List {
			cc := cl.(*ast.CaseClause)
			if cc.List == nil {
				def = &branch{nil, cc.Body}
				continue
			}
			var cond ast.Expr
			for _, l := range cc.List {
				if cond == nil {
					cond = l
				} else {
					cond = &ast.BinaryExpr{X: cond, Op: token.LOR, Y: l}
				}
			}
			bs = append(bs, branch{cond, cc.Body})
		}
		if def != nil {
			bs = append(bs, *def)
		}
	case *ast.IfStmt:
		var cur ast.Stmt = t
		for cur != nil {
			switch u := cur.(type) {
			case *ast.IfStmt:
				if u.Init != nil {
					return
				}
				bs = append(bs, branch{u.Cond, u.Body.List})
				cur = u.Else
			case *ast.BlockStmt:
				bs = append(bs, branch{nil, u.List})
				cur = nil
			default:
				return
			}
		}
	default:
		return
	}
	fset, pset := map[string]bool{}, map[string]bool{}
	for c := 0; c < 256; c++ {
		taken := ""
		found := false
		for _, b := range bs {
			hit := b.cond == nil
			if b.cond != nil {
				v, evalOK := mtEvalBool(b.cond, "c", c)
				if !evalOK {
					return
				}
				hit = v
			}
			if hit {
				taken, found = mtBranch(b.body, builder), true
				break
			}
		}
		if !found {
			taken = "nothing"
		}
		if strings.HasPrefix(taken, "fmt ") {
			esc = append(esc, c)
			fset[strings.TrimPrefix(taken, "fmt ")] = true
		} else {
			pset[taken] = true
		}
	}
	for f := range fset {
		formats = append(formats, f)
	}
	for p := range pset {
		plain = append(plain, p)
	}
	sort.Strings(formats)
	sort.Strings(plain)
	// the rest of the function: `var b strings.Builder`, the loop, `return b.String()`
	last, isRet := fd.Body.List[len(fd.Body.List)-1].(*ast.ReturnStmt)
	ok = isRet && len(last.Results) == 1 && exprString(last.Results[0]) == builder+".String()" && len(fd.Body.List) == 3
	return
}

// ---------------------------------------------------------------------------------------
// cmd/desync: option plumbing

var glueCallees = map[string]bool{
	"desync.NewLocalFS": true, "desync.NewTarReader": true, "desync.NewTarWriter": true, "desync.NewMtreeFS": true,
	"desync.Tar": true, "desync.UnTar": true, "desync.UnTarIndex": true, "desync.ChunkStream": true, "desync.NewChunker": true,
	"os.Open": true, "os.Create": true, "os.Stat": true, "io.Pipe": true, "io.TeeReader": true,
	"storeCaibxFile": true, "readCaibxFile": true, "MultiStoreWithCache": true, "WritableStore": true,
	"errors.New": true, "fmt.Errorf": true, "parseChunkSizeParam": true,
}

func (c *ctx) cmdGlueFacts(emitPairs func(string, string, [][2]string), emitList func(string, string, []string)) {
	c.lean.WriteString("\n/-! cmd/desync tar / untar / mtree: flags, option structs, guarded calls; LocalFS option guards (C05) -/\n")
	for _, cmd := range []string{"Tar", "Untar", "Mtree"} {
		// flags
		fd := c.funcDecl(c.cmd, "", "new"+cmd+"Command")
		flags := [][2]string{}
		if fd != nil && fd.Body != nil {
			walk(fd.Body, func(n ast.Node) bool {
				call, ok := n.(*ast.CallExpr)
				if !ok {
					return true
				}
				sel, ok := call.Fun.(*ast.SelectorExpr)
				if !ok || !strings.Contains(sel.Sel.Name, "Var") || len(call.Args) < 4 {
					return true
				}
				u, ok := call.Args[0].(*ast.UnaryExpr)
				if !ok || u.Op != token.AND {
					return true
				}
				name, err := strconv.Unquote(exprString(call.Args[1]))
				if err != nil {
					return true
				}
				def := exprString(call.Args[len(call.Args)-2])
				flags = append(flags, [2]string{name, exprString(u.X) + " " + strings.TrimSuffix(sel.Sel.Name, "P") + " " + def})
				return true
			})
		}
		sort.Slice(flags, func(i, j int) bool { return flags[i][0] < flags[j][0] })
		if !c.site("cmd_"+cmd+"_flags", fd != nil && len(flags) > 0) {
			fmt.Fprintf(&c.lean, "-- SITE NOT FOUND: cmd_%s_flags\n", cmd)
		}
		emitPairs("cmd"+cmd+"Flags", "`new"+cmd+"Command`: flag -> option field, binding method, default (sorted by flag)", flags)

		// option struct
		fields := []string{}
		for _, f := range c.cmd {
			for _, d := range f.Decls {
				gd, ok := d.(*ast.GenDecl)
				if !ok {
					continue
				}
				for _, sp := range gd.Specs {
					ts, ok := sp.(*ast.TypeSpec)
					if !ok || ts.Name.Name != strings.ToLower(cmd)+"Options" {
						continue
					}
					if st, ok := ts.Type.(*ast.StructType); ok {
						for _, fl := range st.Fields.List {
							if len(fl.Names) == 0 {
								fields = append(fields, "embedded "+typeName(fl.Type))
							}
							for _, nm := range fl.Names {
								fields = append(fields, nm.Name+" "+exprString(fl.Type))
							}
						}
					}
				}
			}
		}
		emitList("cmd"+cmd+"Options", "`"+strings.ToLower(cmd)+"Options`: its fields", fields)

		// guarded calls
		run := c.funcDecl(c.cmd, "", "run"+cmd)
		plan := [][2]string{}
		if run != nil && run.Body != nil {
			defs := mtSingleDefs(run, map[string]bool{"opt": true, "ctx": true, "args": true, "err": true})
			gluePlan(run.Body.List, nil, defs, &plan)
		}
		if !c.site("cmd_run"+cmd, run != nil && len(plan) > 0) {
			fmt.Fprintf(&c.lean, "-- SITE NOT FOUND: cmd_run%s\n", cmd)
		}
		emitPairs("cmdRun"+cmd+"Plan", "`run"+cmd+"`: (conditions, call) for every recognised call, in source order", plan)
	}

	// LocalFSOptions and where LocalFS looks at them
	opts := tarfsStructFields(c, "LocalFSOptions")
	emitList("localfsOptionFields", "`LocalFSOptions`: its fields", opts)
	guards := [][2]string{}
	for _, fname := range []string{"localfs.go", "localfs_other.go"} {
		{
			f := c.files[fname]
			if f == nil {
				continue
			}
			for _, d := range f.Decls {
				fd, ok := d.(*ast.FuncDecl)
				if !ok || fd.Body == nil || fd.Recv == nil || typeName(fd.Recv.List[0].Type) != "LocalFS" {
					continue
				}
				m := fd.Name.Name
				if len(fd.Recv.List[0].Names) == 1 {
					tarfsRename(fd, fd.Recv.List[0].Names[0], "fs")
				}
				walk(fd.Body, func(n ast.Node) bool {
					ifs, ok := n.(*ast.IfStmt)
					if !ok || !strings.Contains(exprString(ifs.Cond), "fs.opts.") {
						return true
					}
					does := []string{}
					walk(ifs.Body, func(x ast.Node) bool {
						switch t := x.(type) {
						case *ast.CallExpr:
							fn := exprString(t.Fun)
							if strings.HasPrefix(fn, "os.") || strings.HasPrefix(fn, "syscall.") || strings.HasPrefix(fn, "unix.") || strings.HasPrefix(fn, "time.") || strings.HasPrefix(fn, "xattr.") {
								does = append(does, fn)
							}
						}
						return true
					})
					guards = append(guards, [2]string{m + ": " + exprString(ifs.Cond), strings.Join(does, ",")})
					return true
				})
			}
		}
	}
	c.site("localfs_option_guards", len(guards) > 0 && len(opts) > 0)
	emitPairs("localfsOptionGuards", "`LocalFS` (localfs_other.go): method: condition on the options -> the calls inside, in source order", guards)
}

func glueCondStr(conds []string) string { return strings.Join(conds, " && ") }

// does the block end in a return on every path that falls to its end? (enough here: its last statement is a return)
func glueEndsInReturn(b *ast.BlockStmt) bool {
	if b == nil || len(b.List) == 0 {
		return false
	}
	_, ok := b.List[len(b.List)-1].(*ast.ReturnStmt)
	return ok
}

func gluePlan(stmts []ast.Stmt, conds []string, defs map[string]ast.Expr, out *[][2]string) {
	conds = append([]string{}, conds...)
	record := func(n ast.Node) {
		walk(n, func(x ast.Node) bool {
			switch t := x.(type) {
			case *ast.FuncLit: // a goroutine body: its calls stand under the same conditions
				return true
			case *ast.CallExpr:
				if glueCallees[exprString(t.Fun)] {
					*out = append(*out, [2]string{glueCondStr(conds), exprString(mtInline(t, defs, 0))})
				}
			case *ast.SelectorExpr:
				if s := exprString(t); s == "os.Stdin" || s == "os.Stdout" {
					*out = append(*out, [2]string{glueCondStr(conds), s})
				}
			}
			return true
		})
	}
	for _, st := range stmts {
		switch t := st.(type) {
		case *ast.IfStmt:
			if t.Init != nil {
				record(t.Init)
			}
			cond := exprString(mtInline(t.Cond, defs, 0))
			if cond == "err!=nil" { // error plumbing: `if err != nil { return err }`
				continue
			}
			gluePlan(t.Body.List, append(conds, cond), defs, out)
			switch e := t.Else.(type) {
			case *ast.BlockStmt:
				gluePlan(e.List, append(conds, "!("+cond+")"), defs, out)
			case *ast.IfStmt:
				gluePlan([]ast.Stmt{e}, append(conds, "!("+cond+")"), defs, out)
			}
			if glueEndsInReturn(t.Body) && t.Else == nil {
				conds = append(conds, "!("+cond+")")
			}
		case *ast.SwitchStmt:
			tag := exprString(mtInline(t.Tag, defs, 0))
			labels := []string{}
			for _, cl := range t.Body.List {
				cc := cl.(*ast.CaseClause)
				if cc.List == nil {
					continue
				}
				for _, l := range cc.List {
					labels = append(labels, exprString(l))
				}
			}
			for _, cl := range t.Body.List {
				cc := cl.(*ast.CaseClause)
				var cond string
				if cc.List == nil {
					cond = tag + " not in {" + strings.Join(labels, ",") + "}"
				} else {
					ls := []string{}
					for _, l := range cc.List {
						ls = append(ls, exprString(l))
					}
					cond = tag + "==" + strings.Join(ls, "|")
				}
				gluePlan(cc.Body, append(conds, cond), defs, out)
			}
		case *ast.BlockStmt:
			gluePlan(t.List, conds, defs, out)
		default:
			record(st)
		}
	}
}
