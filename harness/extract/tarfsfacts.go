package main

import (
	"fmt"
	"go/ast"
	"go/token"
	"strings"
)

// tarfs.go (C05): the tar-stream input leg and the GNU-tar output leg are field mappings between
// archive/tar headers and desync's File / Node* values.  Extracted: for every Create* method the
// (header field, source expression) pairs of the composite literal it hands to WriteHeader, whether the
// header is touched again after the literal, the calls that involve the archive/tar writer, the rule that
// picks the device type flag; for TarReader.Next the (File field, source expression) pairs and its
// statements; the body of the helper tarMode and who calls it; the format NewTarWriter asks for and the
// root entry NewTarReader prepares.  Model/TarFS.lean states the mapping it assumes; gen_tarfs_* compare.
//
// Names are normalised first, so that renaming a receiver, a parameter or a local changes nothing: the
// receiver is "fs", the node parameter "n", the header variable "hdr", the variable the header of the
// stream is read into "h", the one holding h.FileInfo() "info", the File under construction "f", the
// variable of the device type flag "typ".  A local that is defined once by `x := expr` and is none of
// these is replaced by its definition inside the field expressions.
func (c *ctx) tarfsFacts() {
	c.lean.WriteString("\n/-! tarfs.go: archive/tar header <-> File / Node* field mappings (C05) -/\n")
	emitPairs := func(name, doc string, ps [][2]string) {
		q := make([]string, len(ps))
		for i, p := range ps {
			q[i] = fmt.Sprintf("(%q, %q)", p[0], p[1])
		}
		fmt.Fprintf(&c.lean, "/-- %s -/\ndef %s : List (String × String) := [%s]\n", doc, name, strings.Join(q, ", "))
		c.facts[name] = ps
	}
	emitList := func(name, doc string, l []string) {
		fmt.Fprintf(&c.lean, "/-- %s -/\ndef %s : List String := [%s]\n", doc, name, quoteList(l))
		c.facts[name] = l
	}
	for _, m := range []string{"CreateDir", "CreateFile", "CreateSymlink", "CreateDevice"} {
		fd := c.funcDecl(c.files, "TarWriter", m)
		tarfsNormalise(fd)
		lit := tarfsFindLit(fd, "gnutar.Header")
		ok := c.site("tarfs_"+m, fd != nil && lit != nil)
		var ps [][2]string
		var calls []string
		touched := true
		if ok {
			ps = tarfsPairs(fd, lit)
			calls, touched = tarfsWriterUse(fd)
		} else {
			fmt.Fprintf(&c.lean, "-- SITE NOT FOUND: tarfs_%s\n", m)
		}
		emitPairs("tarfs"+m+"Hdr", "`TarWriter."+m+"`: the fields of the `gnutar.Header` literal and their source expressions", ps)
		emitList("tarfs"+m+"Calls", "`TarWriter."+m+"`: the calls that involve the archive/tar writer `fs.w`, in source order", calls)
		fmt.Fprintf(&c.lean, "/-- `TarWriter.%s`: a field of the header is assigned after the literal, or the header is handed to something other than `WriteHeader` -/\ndef tarfs%sHdrTouched : Bool := %v\n", m, m, touched)
		c.facts["tarfs"+m+"HdrTouched"] = touched
		if m == "CreateDevice" {
			emitList("tarfsDeviceTypRule", "`TarWriter.CreateDevice`: every statement that gives `typ` a value, with the condition it stands under", tarfsAssignsTo(fd, "typ"))
		}
	}
	// TarReader.Next
	{
		fd := c.funcDecl(c.files, "TarReader", "Next")
		tarfsNormalise(fd)
		lit := tarfsFindLit(fd, "File")
		ok := c.site("tarfs_ReaderNext", fd != nil && lit != nil)
		var ps [][2]string
		if ok {
			ps = tarfsPairs(fd, lit)
		} else {
			c.lean.WriteString("-- SITE NOT FOUND: tarfs_ReaderNext\n")
		}
		emitPairs("tarfsReaderNextFile", "`TarReader.Next`: the fields of the `File` literal and their source expressions", ps)
		emitList("tarfsReaderNextBody", "`TarReader.Next`: its statements, the literal abbreviated", tarfsStatements(fd))
	}
	// NewTarReader: the root entry
	{
		fd := c.funcDecl(c.files, "", "NewTarReader")
		lit := tarfsFindLit(fd, "File")
		ok := c.site("tarfs_NewTarReader", fd != nil && lit != nil)
		var ps [][2]string
		var cond []string
		if ok {
			ps = tarfsPairs(fd, lit)
			// the condition(s) the root literal stands under
			walk(fd.Body, func(n ast.Node) bool {
				if ifs, isIf := n.(*ast.IfStmt); isIf {
					inside := false
					walk(ifs.Body, func(m ast.Node) bool {
						if m == ast.Node(lit) {
							inside = true
						}
						return true
					})
					if inside {
						cond = append(cond, exprString(ifs.Cond))
					}
				}
				return true
			})
		} else {
			c.lean.WriteString("-- SITE NOT FOUND: tarfs_NewTarReader\n")
		}
		emitPairs("tarfsRootFile", "`NewTarReader`: the root entry it prepares", ps)
		emitList("tarfsRootFileCond", "`NewTarReader`: the conditions the root entry stands under", cond)
	}
	// NewTarWriter: what it returns
	{
		fd := c.funcDecl(c.files, "", "NewTarWriter")
		lit := tarfsFindLit(fd, "TarWriter")
		ok := c.site("tarfs_NewTarWriter", fd != nil && lit != nil)
		var ps [][2]string
		if ok {
			ps = tarfsPairs(fd, lit)
			// positional literal: name the fields after the struct declaration
			if names := tarfsStructFields(c, "TarWriter"); len(names) == len(ps) {
				for i := range ps {
					if ps[i][0] == "" {
						ps[i][0] = names[i]
					}
				}
			}
		} else {
			c.lean.WriteString("-- SITE NOT FOUND: tarfs_NewTarWriter\n")
		}
		emitPairs("tarfsNewTarWriter", "`NewTarWriter`: the `TarWriter` literal (writer, format)", ps)
	}
	// formatFor: the header format of an entry as a function of its extended attributes
	{
		fd := c.funcDecl(c.files, "TarWriter", "formatFor")
		if fd != nil {
			if fd.Recv != nil && len(fd.Recv.List) == 1 && len(fd.Recv.List[0].Names) == 1 {
				tarfsRename(fd, fd.Recv.List[0].Names[0], "fs")
			}
			if fd.Type.Params != nil && len(fd.Type.Params.List) == 1 && len(fd.Type.Params.List[0].Names) == 1 {
				tarfsRename(fd, fd.Type.Params.List[0].Names[0], "xattrs")
			}
		}
		body := tarfsStatements(fd)
		c.site("tarfs_formatFor", fd != nil && len(body) > 0)
		if fd == nil {
			c.lean.WriteString("-- SITE NOT FOUND: tarfs_formatFor\n")
		}
		emitList("tarfsFormatForBody", "`TarWriter.formatFor`: its statements", body)
	}
	// tarMode: its body, and the functions that call it
	{
		fd := c.funcDecl(c.files, "", "tarMode")
		var body []string
		if fd != nil && fd.Type.Params != nil && len(fd.Type.Params.List) == 1 && len(fd.Type.Params.List[0].Names) == 1 {
			tarfsRename(fd, fd.Type.Params.List[0].Names[0], "m")
		}
		body = tarfsStatements(fd)
		c.site("tarfs_tarMode", fd != nil && len(body) > 0)
		if fd == nil {
			c.lean.WriteString("-- SITE NOT FOUND: tarfs_tarMode\n")
		}
		emitList("tarfsTarModeBody", "the helper `tarMode` of tarfs.go", body)
		var callers []string
		for _, f := range sortedFiles(c.files) {
			for _, d := range c.files[f].Decls {
				fn, ok := d.(*ast.FuncDecl)
				if !ok || fn.Body == nil {
					continue
				}
				walk(fn.Body, func(n ast.Node) bool {
					if call, ok := n.(*ast.CallExpr); ok && exprString(call.Fun) == "tarMode" {
						name := fn.Name.Name
						if fn.Recv != nil && len(fn.Recv.List) == 1 {
							name = typeName(fn.Recv.List[0].Type) + "." + name
						}
						callers = append(callers, name)
					}
					return true
				})
			}
		}
		emitList("tarfsTarModeCallers", "the functions of the library that call `tarMode`", callers)
	}
}

// tarfsRename gives every identifier that denotes the same object as decl the name to
func tarfsRename(fd *ast.FuncDecl, decl *ast.Ident, to string) {
	if fd == nil || decl == nil || decl.Obj == nil || decl.Name == "_" {
		return
	}
	obj := decl.Obj
	ast.Inspect(fd, func(n ast.Node) bool {
		if id, ok := n.(*ast.Ident); ok && id.Obj == obj {
			id.Name = to
		}
		return true
	})
}

// tarfsNormalise renames receiver, node parameter and the locals with a fixed role (see tarfsFacts)
func tarfsNormalise(fd *ast.FuncDecl) {
	if fd == nil || fd.Body == nil {
		return
	}
	if fd.Recv != nil && len(fd.Recv.List) == 1 && len(fd.Recv.List[0].Names) == 1 {
		tarfsRename(fd, fd.Recv.List[0].Names[0], "fs")
	}
	if fd.Type.Params != nil && len(fd.Type.Params.List) >= 1 && len(fd.Type.Params.List[0].Names) == 1 {
		tarfsRename(fd, fd.Type.Params.List[0].Names[0], "n")
	}
	if fd.Type.Results != nil { // named results of Next: (f *File, err error)
		for _, r := range fd.Type.Results.List {
			for _, nm := range r.Names {
				switch typeName(r.Type) {
				case "File":
					tarfsRename(fd, nm, "f")
				case "error":
					tarfsRename(fd, nm, "err")
				}
			}
		}
	}
	isLit := func(e ast.Expr, typ string) bool {
		if u, ok := e.(*ast.UnaryExpr); ok && u.Op == token.AND {
			e = u.X
		}
		lit, ok := e.(*ast.CompositeLit)
		return ok && typeName(lit.Type) == typ
	}
	ast.Inspect(fd.Body, func(n ast.Node) bool {
		switch t := n.(type) {
		case *ast.AssignStmt:
			if len(t.Rhs) != 1 || len(t.Lhs) == 0 {
				return true
			}
			id, ok := t.Lhs[0].(*ast.Ident)
			if !ok {
				return true
			}
			switch {
			case isLit(t.Rhs[0], "gnutar.Header"):
				tarfsRename(fd, id, "hdr")
			case isLit(t.Rhs[0], "File"):
				tarfsRename(fd, id, "f")
			default:
				if call, ok := t.Rhs[0].(*ast.CallExpr); ok {
					if sel, ok := call.Fun.(*ast.SelectorExpr); ok {
						switch {
						case sel.Sel.Name == "FileInfo" && len(call.Args) == 0:
							tarfsRename(fd, id, "info")
						case sel.Sel.Name == "Next" && len(call.Args) == 0 && len(t.Lhs) == 2:
							tarfsRename(fd, id, "h")
							if e, ok := t.Lhs[1].(*ast.Ident); ok {
								tarfsRename(fd, e, "err")
							}
						}
					}
				}
			}
		case *ast.DeclStmt: // `var typ byte = gnutar.TypeBlock`
			if gd, ok := t.Decl.(*ast.GenDecl); ok && gd.Tok == token.VAR {
				for _, sp := range gd.Specs {
					vs := sp.(*ast.ValueSpec)
					if len(vs.Names) == 1 && exprString(vs.Type) == "byte" {
						tarfsRename(fd, vs.Names[0], "typ")
					}
				}
			}
		}
		return true
	})
}

// the first composite literal of the named type in a function body
func tarfsFindLit(fd *ast.FuncDecl, typ string) *ast.CompositeLit {
	var found *ast.CompositeLit
	if fd == nil || fd.Body == nil {
		return nil
	}
	walk(fd.Body, func(n ast.Node) bool {
		if lit, ok := n.(*ast.CompositeLit); ok && found == nil && typeName(lit.Type) == typ {
			found = lit
		}
		return found == nil
	})
	return found
}

// the (field, expression) pairs of a literal; a local of the function that is defined exactly once by `x := expr`
// and has no fixed role is replaced by its definition
func tarfsPairs(fd *ast.FuncDecl, lit *ast.CompositeLit) [][2]string {
	count := map[string]int{}
	defs := map[string]string{}
	walk(fd.Body, func(n ast.Node) bool {
		switch t := n.(type) {
		case *ast.AssignStmt:
			for i, l := range t.Lhs {
				if id, ok := l.(*ast.Ident); ok {
					count[id.Name]++
					if t.Tok == token.DEFINE && len(t.Lhs) == len(t.Rhs) {
						defs[id.Name] = exprString(t.Rhs[i])
					}
				}
			}
		case *ast.IncDecStmt:
			if id, ok := t.X.(*ast.Ident); ok {
				count[id.Name] += 2
			}
		}
		return true
	})
	role := map[string]bool{"fs": true, "n": true, "hdr": true, "h": true, "info": true, "f": true, "typ": true, "err": true}
	var subst func(e ast.Expr, depth int) string
	subst = func(e ast.Expr, depth int) string {
		if id, ok := e.(*ast.Ident); ok && depth < 4 && !role[id.Name] && count[id.Name] == 1 {
			if d, ok := defs[id.Name]; ok {
				return d
			}
		}
		return exprString(e)
	}
	var out [][2]string
	for _, el := range lit.Elts {
		if kv, ok := el.(*ast.KeyValueExpr); ok {
			out = append(out, [2]string{exprString(kv.Key), subst(kv.Value, 0)})
		} else {
			out = append(out, [2]string{"", subst(el, 0)})
		}
	}
	return out
}

// what a Create* method does with the archive/tar writer and with the header after the literal
func tarfsWriterUse(fd *ast.FuncDecl) (calls []string, touched bool) {
	walk(fd.Body, func(n ast.Node) bool {
		switch t := n.(type) {
		case *ast.CallExpr:
			s := exprString(t)
			usesW := strings.Contains(s, "fs.w")
			usesHdr := false
			for _, a := range t.Args {
				if strings.Contains(exprString(a), "hdr") {
					usesHdr = true
				}
			}
			if usesW {
				calls = append(calls, s)
			}
			if usesHdr && exprString(t.Fun) != "fs.w.WriteHeader" {
				touched = true
			}
		case *ast.AssignStmt:
			for _, l := range t.Lhs {
				ls := exprString(l)
				if strings.HasPrefix(ls, "hdr.") || strings.HasPrefix(ls, "*hdr") || strings.HasPrefix(ls, "(*hdr)") {
					touched = true
				}
				if ls == "hdr" && t.Tok != token.DEFINE {
					touched = true
				}
			}
		case *ast.IncDecStmt:
			if strings.HasPrefix(exprString(t.X), "hdr.") {
				touched = true
			}
		}
		return true
	})
	return calls, touched
}

// every statement that gives the named variable a value, prefixed by the conditions it stands under
func tarfsAssignsTo(fd *ast.FuncDecl, name string) []string {
	var out []string
	var visit func(st ast.Stmt, prefix string)
	visit = func(st ast.Stmt, prefix string) {
		switch t := st.(type) {
		case *ast.DeclStmt:
			if gd, ok := t.Decl.(*ast.GenDecl); ok && gd.Tok == token.VAR {
				for _, sp := range gd.Specs {
					vs := sp.(*ast.ValueSpec)
					for i, n := range vs.Names {
						if n.Name == name {
							v := ""
							if i < len(vs.Values) {
								v = exprString(vs.Values[i])
							}
							out = append(out, prefix+name+"="+v)
						}
					}
				}
			}
		case *ast.AssignStmt:
			for i, l := range t.Lhs {
				if exprString(l) == name && len(t.Rhs) == len(t.Lhs) {
					out = append(out, prefix+name+"="+exprString(t.Rhs[i]))
				}
			}
		case *ast.IfStmt:
			for _, s := range t.Body.List {
				visit(s, prefix+"if "+exprString(t.Cond)+": ")
			}
			if t.Else != nil {
				visit(t.Else, prefix+"if !("+exprString(t.Cond)+"): ")
			}
		case *ast.BlockStmt:
			for _, s := range t.List {
				visit(s, prefix)
			}
		case *ast.SwitchStmt:
			out = append(out, prefix+"<switch>")
		}
	}
	if fd != nil && fd.Body != nil {
		for _, st := range fd.Body.List {
			visit(st, "")
		}
	}
	return out
}

// the statements of a function in source order, composite literals abbreviated, conditions as prefixes
func tarfsStatements(fd *ast.FuncDecl) []string {
	var out []string
	if fd == nil || fd.Body == nil {
		return out
	}
	var visit func(st ast.Stmt, prefix string)
	visit = func(st ast.Stmt, prefix string) {
		switch t := st.(type) {
		case *ast.DeclStmt:
			if gd, ok := t.Decl.(*ast.GenDecl); ok && gd.Tok == token.VAR {
				for _, sp := range gd.Specs {
					vs := sp.(*ast.ValueSpec)
					for i, n := range vs.Names {
						v := ""
						if i < len(vs.Values) {
							v = exprString(vs.Values[i])
						}
						out = append(out, prefix+"var "+n.Name+" "+exprString(vs.Type)+"="+v)
					}
				}
			}
		case *ast.AssignStmt:
			if len(t.Rhs) == 1 && len(t.Lhs) > 1 { // `h, err := call()`
				ls := make([]string, len(t.Lhs))
				for i, l := range t.Lhs {
					ls[i] = exprString(l)
				}
				out = append(out, prefix+strings.Join(ls, ",")+"="+exprString(t.Rhs[0]))
				break
			}
			for i, l := range t.Lhs {
				r := ""
				if len(t.Rhs) == len(t.Lhs) {
					r = exprString(t.Rhs[i])
				}
				if cl := compositeOf(t.Rhs, i); cl != "" {
					r = cl
				}
				out = append(out, prefix+exprString(l)+"="+r) // `:=` and `=` alike
			}
		case *ast.IfStmt:
			if t.Init != nil {
				visit(t.Init, prefix)
			}
			for _, s := range t.Body.List {
				visit(s, prefix+"if "+exprString(t.Cond)+": ")
			}
			if t.Else != nil {
				visit(t.Else, prefix+"if !("+exprString(t.Cond)+"): ")
			}
		case *ast.ReturnStmt:
			rs := make([]string, len(t.Results))
			for i, r := range t.Results {
				rs[i] = exprString(r)
				if cl := compositeOf(t.Results, i); cl != "" {
					rs[i] = cl
				}
				if call, ok := r.(*ast.CallExpr); ok { // a freshly made error: its wording is not a fact
					if fn := exprString(call.Fun); fn == "fmt.Errorf" || fn == "errors.New" {
						rs[i] = "<new error>"
					}
				}
			}
			out = append(out, prefix+"return "+strings.Join(rs, ","))
		case *ast.ExprStmt:
			out = append(out, prefix+exprString(t.X))
		case *ast.BlockStmt:
			for _, s := range t.List {
				visit(s, prefix)
			}
		case *ast.ForStmt: // `for cond { … }`: the body under "for <cond>"; an init or post statement is shown as it is
			p := prefix + "for " + exprString(t.Cond) + ": "
			if t.Init != nil {
				visit(t.Init, prefix+"for-init: ")
			}
			for _, s := range t.Body.List {
				visit(s, p)
			}
			if t.Post != nil {
				visit(t.Post, prefix+"for-post: ")
			}
		default:
			out = append(out, prefix+fmt.Sprintf("<%T>", st))
		}
	}
	for _, st := range fd.Body.List {
		visit(st, "")
	}
	return out
}

// the field names of a struct type of the library, in declaration order
func tarfsStructFields(c *ctx, name string) []string {
	var out []string
	for _, f := range c.files {
		for _, d := range f.Decls {
			gd, ok := d.(*ast.GenDecl)
			if !ok || gd.Tok != token.TYPE {
				continue
			}
			for _, sp := range gd.Specs {
				ts := sp.(*ast.TypeSpec)
				st, ok := ts.Type.(*ast.StructType)
				if !ok || ts.Name.Name != name {
					continue
				}
				for _, fl := range st.Fields.List {
					for _, n := range fl.Names {
						out = append(out, n.Name)
					}
				}
			}
		}
	}
	return out
}

// compositeOf abbreviates `&T{…}` / `T{…}`
func compositeOf(rhs []ast.Expr, i int) string {
	if i >= len(rhs) {
		return ""
	}
	e := rhs[i]
	amp := ""
	if u, ok := e.(*ast.UnaryExpr); ok && u.Op == token.AND {
		e, amp = u.X, "&"
	}
	if lit, ok := e.(*ast.CompositeLit); ok {
		return amp + typeName(lit.Type) + "{…}"
	}
	return ""
}

func sortedFiles(m map[string]*ast.File) []string {
	var out []string
	for k := range m {
		out = append(out, k)
	}
	for i := 1; i < len(out); i++ {
		for j := i; j > 0 && out[j] < out[j-1]; j-- {
			out[j], out[j-1] = out[j-1], out[j]
		}
	}
	return out
}
