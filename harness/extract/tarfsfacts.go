package main

import (
	"fmt"
	"go/ast"
	"go/token"
	"strings"
)

// tarfs.go (C05): the tar-stream input leg and the GNU-tar output leg are field mappings between
// archive/tar headers and desync's File / Node* values.  Extracted: for every Create* method the
// (header field, source expression) pairs of the composite literal it hands to WriteHeader, for
// TarReader.Next the (File field, source expression) pairs, the statements around them (where `typ`,
// `info` and `h` come from, assignments to the header after the literal, the calls made), the body of
// the helper tarMode and whether anything calls it, the format NewTarWriter asks for and the root entry
// NewTarReader prepares.  Model/TarFS.lean states the mapping it assumes; gen_tarfs_* compare.
func (c *ctx) tarfsFacts() {
	c.lean.WriteString("\n/-! tarfs.go: archive/tar header <-> File / Node* field mappings (C05) -/\n")
	pairsOf := func(lit *ast.CompositeLit) [][2]string {
		var out [][2]string
		for _, el := range lit.Elts {
			if kv, ok := el.(*ast.KeyValueExpr); ok {
				out = append(out, [2]string{exprString(kv.Key), exprString(kv.Value)})
			} else {
				out = append(out, [2]string{"", exprString(el)})
			}
		}
		return out
	}
	emitPairs := func(name, doc string, ps [][2]string) {
		q := make([]string, len(ps))
		for i, p := range ps {
			q[i] = fmt.Sprintf("(%q, %q)", p[0], p[1])
		}
		fmt.Fprintf(&c.lean, "/-- %s -/\ndef %s : List (String × String) := [%s]\n", doc, name, strings.Join(q, ", "))
		c.facts[name] = ps
	}
	// the first composite literal of the named type in a function body
	findLit := func(fd *ast.FuncDecl, typ string) *ast.CompositeLit {
		var found *ast.CompositeLit
		if fd == nil {
			return nil
		}
		walk(fd.Body, func(n ast.Node) bool {
			if lit, ok := n.(*ast.CompositeLit); ok && found == nil && typeName(lit.Type) == typ {
				found = lit
			}
			return found == nil
		})
		return found
	}
	// everything a function does besides building the literal: local definitions, assignments to fields of
	// the header, conditionals that assign, calls (method name only), in source order
	around := func(fd *ast.FuncDecl) []string {
		var out []string
		if fd == nil {
			return out
		}
		var visit func(st ast.Stmt, prefix string)
		visit = func(st ast.Stmt, prefix string) {
			switch t := st.(type) {
			case *ast.DeclStmt:
				if gd, ok := t.Decl.(*ast.GenDecl); ok && gd.Tok == token.VAR {
					for _, sp := range gd.Specs {
						vs := sp.(*ast.ValueSpec)
						for i, n := range vs.Names {
							v := ""
							if i < len(vs.Values) {
								v = exprString(vs.Values[i])
							}
							out = append(out, prefix+"var "+n.Name+" "+exprString(vs.Type)+"="+v)
						}
					}
				}
			case *ast.AssignStmt:
				if len(t.Rhs) == 1 && len(t.Lhs) > 1 { // `h, err := call()`
					ls := make([]string, len(t.Lhs))
					for i, l := range t.Lhs {
						ls[i] = exprString(l)
					}
					out = append(out, prefix+strings.Join(ls, ",")+t.Tok.String()+exprString(t.Rhs[0]))
					break
				}
				for i, l := range t.Lhs {
					r := ""
					if len(t.Rhs) == len(t.Lhs) {
						r = exprString(t.Rhs[i])
					}
					if cl := compositeOf(t.Rhs, i); cl != "" {
						r = cl
					}
					out = append(out, prefix+exprString(l)+t.Tok.String()+r)
				}
			case *ast.IfStmt:
				p := prefix + "if " + exprString(t.Cond) + ": "
				if t.Init != nil {
					visit(t.Init, prefix)
				}
				for _, s := range t.Body.List {
					visit(s, p)
				}
				if t.Else != nil {
					if b, ok := t.Else.(*ast.BlockStmt); ok {
						for _, s := range b.List {
							visit(s, prefix+"else: ")
						}
					} else {
						visit(t.Else.(ast.Stmt), prefix+"else: ")
					}
				}
			case *ast.ReturnStmt:
				rs := make([]string, len(t.Results))
				for i, r := range t.Results {
					rs[i] = exprString(r)
					if cl, ok := r.(*ast.UnaryExpr); ok {
						if lit, ok := cl.X.(*ast.CompositeLit); ok {
							rs[i] = "&" + typeName(lit.Type) + "{…}"
						}
					}
				}
				out = append(out, prefix+"return "+strings.Join(rs, ","))
			case *ast.ExprStmt:
				out = append(out, prefix+exprString(t.X))
			case *ast.BlockStmt:
				for _, s := range t.List {
					visit(s, prefix)
				}
			default:
				out = append(out, prefix+fmt.Sprintf("<%T>", st))
			}
		}
		for _, st := range fd.Body.List {
			visit(st, "")
		}
		return out
	}
	for _, m := range []string{"CreateDir", "CreateFile", "CreateSymlink", "CreateDevice"} {
		fd := c.funcDecl(c.files, "TarWriter", m)
		lit := findLit(fd, "gnutar.Header")
		ok := c.site("tarfs_"+m, fd != nil && lit != nil)
		var ps [][2]string
		if ok {
			ps = pairsOf(lit)
		} else {
			fmt.Fprintf(&c.lean, "-- SITE NOT FOUND: tarfs_%s\n", m)
		}
		emitPairs("tarfs"+m+"Hdr", "`TarWriter."+m+"`: the fields of the `gnutar.Header` literal and their source expressions", ps)
		fmt.Fprintf(&c.lean, "/-- `TarWriter.%s`: its statements, the literal abbreviated -/\ndef tarfs%sBody : List String := [%s]\n", m, m, quoteList(around(fd)))
		c.facts["tarfs"+m+"Body"] = around(fd)
	}
	// TarReader.Next
	{
		fd := c.funcDecl(c.files, "TarReader", "Next")
		lit := findLit(fd, "File")
		ok := c.site("tarfs_ReaderNext", fd != nil && lit != nil)
		var ps [][2]string
		if ok {
			ps = pairsOf(lit)
		} else {
			c.lean.WriteString("-- SITE NOT FOUND: tarfs_ReaderNext\n")
		}
		emitPairs("tarfsReaderNextFile", "`TarReader.Next`: the fields of the `File` literal and their source expressions", ps)
		fmt.Fprintf(&c.lean, "/-- `TarReader.Next`: its statements, the literal abbreviated -/\ndef tarfsReaderNextBody : List String := [%s]\n", quoteList(around(fd)))
		c.facts["tarfsReaderNextBody"] = around(fd)
	}
	// NewTarReader: the root entry and the reader literal
	{
		fd := c.funcDecl(c.files, "", "NewTarReader")
		lit := findLit(fd, "File")
		ok := c.site("tarfs_NewTarReader", fd != nil && lit != nil)
		var ps [][2]string
		if ok {
			ps = pairsOf(lit)
		} else {
			c.lean.WriteString("-- SITE NOT FOUND: tarfs_NewTarReader\n")
		}
		emitPairs("tarfsRootFile", "`NewTarReader`: the root entry prepared under `AddRoot`", ps)
		fmt.Fprintf(&c.lean, "def tarfsNewTarReaderBody : List String := [%s]\n", quoteList(around(fd)))
		c.facts["tarfsNewTarReaderBody"] = around(fd)
	}
	// NewTarWriter: what it returns
	{
		fd := c.funcDecl(c.files, "", "NewTarWriter")
		lit := findLit(fd, "TarWriter")
		ok := c.site("tarfs_NewTarWriter", fd != nil && lit != nil)
		var ps [][2]string
		if ok {
			ps = pairsOf(lit)
		} else {
			c.lean.WriteString("-- SITE NOT FOUND: tarfs_NewTarWriter\n")
		}
		emitPairs("tarfsNewTarWriter", "`NewTarWriter`: the `TarWriter` literal (writer, format)", ps)
	}
	// tarMode: its body, and the functions that call it
	{
		fd := c.funcDecl(c.files, "", "tarMode")
		body := around(fd)
		c.site("tarfs_tarMode", fd != nil && len(body) > 0)
		if fd == nil {
			c.lean.WriteString("-- SITE NOT FOUND: tarfs_tarMode\n")
		}
		fmt.Fprintf(&c.lean, "/-- the helper `tarMode` of tarfs.go -/\ndef tarfsTarModeBody : List String := [%s]\n", quoteList(body))
		c.facts["tarfsTarModeBody"] = body
		var callers []string
		for _, f := range sortedFiles(c.files) {
			for _, d := range c.files[f].Decls {
				fn, ok := d.(*ast.FuncDecl)
				if !ok || fn.Body == nil {
					continue
				}
				walk(fn.Body, func(n ast.Node) bool {
					if call, ok := n.(*ast.CallExpr); ok && exprString(call.Fun) == "tarMode" {
						name := fn.Name.Name
						if fn.Recv != nil && len(fn.Recv.List) == 1 {
							name = typeName(fn.Recv.List[0].Type) + "." + name
						}
						callers = append(callers, name)
					}
					return true
				})
			}
		}
		fmt.Fprintf(&c.lean, "/-- the functions of the library that call `tarMode` -/\ndef tarfsTarModeCallers : List String := [%s]\n", quoteList(callers))
		c.facts["tarfsTarModeCallers"] = callers
	}
}

// compositeOf abbreviates `&T{…}` / `T{…}` on the right-hand side of an assignment
func compositeOf(rhs []ast.Expr, i int) string {
	if i >= len(rhs) {
		return ""
	}
	e := rhs[i]
	amp := ""
	if u, ok := e.(*ast.UnaryExpr); ok && u.Op == token.AND {
		e, amp = u.X, "&"
	}
	if lit, ok := e.(*ast.CompositeLit); ok {
		return amp + typeName(lit.Type) + "{…}"
	}
	return ""
}

func sortedFiles(m map[string]*ast.File) []string {
	var out []string
	for k := range m {
		out = append(out, k)
	}
	// insertion sort: tiny
	for i := 1; i < len(out); i++ {
		for j := i; j > 0 && out[j] < out[j-1]; j-- {
			out[j], out[j-1] = out[j-1], out[j]
		}
	}
	return out
}
