package main

import (
	"regexp"
	"fmt"
	"go/ast"
	"strings"
)

// assemble.go / fileseed.go / nullseed.go / sequencer.go / selfseed.go: the arithmetic of the
// clone paths, the decisions of the planner and the order of operations of the worker (C01, C08)
func (c *ctx) assembleFacts() {
	c.lean.WriteString("\n/-! fileseed.go / nullseed.go: clone arithmetic (uint64, wrapping like the Go code) -/\n")
	const P = "(srcOffset srcLength dstOffset blocksize srcAlignStart srcAlignEnd dstAlignStart alignLength dstAlignEnd : UInt64)"
	env := map[string]string{}
	for _, n := range []string{"srcOffset", "srcLength", "dstOffset", "blocksize", "srcAlignStart", "srcAlignEnd", "dstAlignStart", "alignLength", "dstAlignEnd"} {
		env[n] = n
	}
	assigns := map[string]ast.Expr{}
	var guard ast.Expr
	var guardCopy, copies [][]ast.Expr
	var cloneArgs []ast.Expr
	if fd := c.funcDecl(c.files, "fileSeedSegment", "clone"); fd != nil {
		for _, st := range fd.Body.List {
			switch t := st.(type) {
			case *ast.AssignStmt:
				if len(t.Lhs) == 1 && len(t.Rhs) == 1 {
					if _, dup := assigns[exprString(t.Lhs[0])]; !dup {
						assigns[exprString(t.Lhs[0])] = t.Rhs[0]
					}
				}
			case *ast.IfStmt:
				cs := exprString(t.Cond)
				if strings.Contains(cs, "srcAlignEnd") && strings.Contains(cs, "srcAlignStart") && guard == nil {
					guard = t.Cond
					walk(t.Body, func(n ast.Node) bool {
						if call, ok := n.(*ast.CallExpr); ok && strings.HasSuffix(exprString(call.Fun), ".copy") {
							guardCopy = append(guardCopy, call.Args)
						}
						return true
					})
				}
			}
		}
		walk(fd.Body, func(n ast.Node) bool {
			if ifs, ok := n.(*ast.IfStmt); ok && ifs.Cond == guard {
				return false
			}
			if call, ok := n.(*ast.CallExpr); ok {
				fn := exprString(call.Fun)
				if strings.HasSuffix(fn, ".copy") {
					copies = append(copies, call.Args)
				}
				if fn == "CloneRange" {
					cloneArgs = call.Args
				}
			}
			return true
		})
	}
	for _, n := range []string{"srcAlignStart", "srcAlignEnd", "dstAlignStart", "alignLength", "dstAlignEnd"} {
		c.emitExpr("fsclone_"+n, "fsClone_"+n, P, "UInt64", assigns[n], env, "0")
	}
	c.emitExpr("fsclone_guard", "fsClone_guard", P, "Bool", guard, env, "false")
	triple := func(site, name string, args []ast.Expr, from int, params string, env map[string]string) {
		ok := len(args) >= from+3
		var parts []string
		src := ""
		if ok {
			for _, a := range args[from : from+3] {
				s, err := c.toLean(a, env)
				if err != nil {
					ok = false
					break
				}
				parts = append(parts, s)
				src += exprString(a) + ", "
			}
		}
		c.site(site, ok)
		if !ok {
			fmt.Fprintf(&c.lean, "-- SITE NOT FOUND: %s\n", site)
			parts = []string{"0", "0", "0"}
		} else {
			fmt.Fprintf(&c.lean, "/-- Go: `%s` -/\n", strings.TrimSuffix(src, ", "))
		}
		fmt.Fprintf(&c.lean, "def %s %s : UInt64 × UInt64 × UInt64 := (%s)\n", name, params, strings.Join(parts, ", "))
		c.facts[name] = src
	}
	get := func(l [][]ast.Expr, i int) []ast.Expr {
		if i < len(l) {
			return l[i]
		}
		return nil
	}
	c.lean.WriteString("/-! arguments (source offset, length, destination offset) of the copies and of CloneRange -/\n")
	triple("fsclone_fallbackCopy", "fsClone_fallbackCopy", get(guardCopy, 0), 2, P, env)
	triple("fsclone_headCopy", "fsClone_headCopy", get(copies, 0), 2, P, env)
	triple("fsclone_tailCopy", "fsClone_tailCopy", get(copies, 1), 2, P, env)
	triple("fsclone_cloneRange", "fsClone_cloneRange", cloneArgs, 2, P, env)
	c.site("fsclone_two_copies", len(copies) == 2 && len(guardCopy) == 1)

	// fileSeedSegment.WriteInto: when a plain copy is used
	var useCopy ast.Expr
	var wiCopy, wiClone, wiFallback []ast.Expr
	wiCloneAssigned := false
	var sizeCheck ast.Expr
	if fd := c.funcDecl(c.files, "fileSeedSegment", "WriteInto"); fd != nil {
		for _, st := range fd.Body.List {
			if ifs, ok := st.(*ast.IfStmt); ok {
				cs := exprString(ifs.Cond)
				if strings.Contains(cs, "canReflink") {
					useCopy = ifs.Cond
					walk(ifs.Body, func(n ast.Node) bool {
						if call, ok := n.(*ast.CallExpr); ok && strings.HasSuffix(exprString(call.Fun), ".copy") {
							wiCopy = call.Args
						}
						return true
					})
				}
				if strings.Contains(cs, "s.Size()") {
					sizeCheck = ifs.Cond
				}
			}
			if rs, ok := st.(*ast.ReturnStmt); ok && len(rs.Results) == 1 {
				if call, ok := rs.Results[0].(*ast.CallExpr); ok && strings.HasSuffix(exprString(call.Fun), ".clone") {
					wiClone = call.Args
				}
			}
			if as, ok := st.(*ast.AssignStmt); ok && len(as.Rhs) == 1 {
				if call, ok := as.Rhs[0].(*ast.CallExpr); ok && strings.HasSuffix(exprString(call.Fun), ".clone") {
					wiClone = call.Args
					wiCloneAssigned = true
				}
			}
			// `if err != nil { return s.copy(…) }` right after the clone: fall back to a plain copy
			if ifs, ok := st.(*ast.IfStmt); ok && wiCloneAssigned && exprString(ifs.Cond) == "err!=nil" {
				walk(ifs.Body, func(n ast.Node) bool {
					if call, ok := n.(*ast.CallExpr); ok && strings.HasSuffix(exprString(call.Fun), ".copy") {
						wiFallback = call.Args
					}
					return true
				})
			}
		}
	}
	wenv := map[string]string{"s.canReflink": "canReflink", "s.chunks[0].Start": "srcStart", "offset": "offset", "length": "length",
		"blocksize": "blocksize", "s.Size()": "size"}
	const WP = "(canReflink : Bool) (srcStart offset length blocksize size : UInt64)"
	c.emitExpr("fswrite_useCopy", "fsWrite_useCopy", WP, "Bool", useCopy, wenv, "true")
	c.emitExpr("fswrite_wrongSize", "fsWrite_wrongSize", WP, "Bool", sizeCheck, wenv, "false")
	triple("fswrite_copyArgs", "fsWrite_copyArgs", wiCopy, 2, WP, wenv)
	triple("fswrite_cloneArgs", "fsWrite_cloneArgs", wiClone, 2, WP, wenv)
	c.lean.WriteString("-- a refused clone is followed by a plain copy of the whole range with these arguments\n")
	triple("fswrite_cloneFallbackArgs", "fsWrite_cloneFallbackArgs", wiFallback, 2, WP, wenv)

	// nullChunkSection.clone
	c.lean.WriteString("\n/-! nullseed.go: nullChunkSection.clone -/\n")
	const NP = "(offset length blocksize dstAlignStart dstAlignEnd blkOffset : UInt64)"
	nenv := map[string]string{"offset": "offset", "length": "length", "blocksize": "blocksize", "dstAlignStart": "dstAlignStart",
		"dstAlignEnd": "dstAlignEnd", "blkOffset": "blkOffset", "s.Size()": "length"}
	nass := map[string]ast.Expr{}
	var nguard, loopInit, loopCond, loopPost ast.Expr
	var nguardCopy, ncopies [][]ast.Expr
	var ncloneArgs []ast.Expr
	if fd := c.funcDecl(c.files, "nullChunkSection", "clone"); fd != nil {
		for _, st := range fd.Body.List {
			switch t := st.(type) {
			case *ast.AssignStmt:
				if len(t.Lhs) == 1 && len(t.Rhs) == 1 {
					if _, dup := nass[exprString(t.Lhs[0])]; !dup {
						nass[exprString(t.Lhs[0])] = t.Rhs[0]
					}
				}
			case *ast.IfStmt:
				cs := exprString(t.Cond)
				if strings.Contains(cs, "dstAlignEnd") && strings.Contains(cs, "dstAlignStart") && nguard == nil {
					nguard = t.Cond
					walk(t.Body, func(n ast.Node) bool {
						if call, ok := n.(*ast.CallExpr); ok && strings.HasSuffix(exprString(call.Fun), ".copy") {
							nguardCopy = append(nguardCopy, call.Args)
						}
						return true
					})
				}
			case *ast.ForStmt:
				if as, ok := t.Init.(*ast.AssignStmt); ok && len(as.Rhs) == 1 {
					loopInit = as.Rhs[0]
				}
				loopCond = t.Cond
				if as, ok := t.Post.(*ast.AssignStmt); ok && len(as.Rhs) == 1 && as.Tok.String() == "+=" {
					loopPost = as.Rhs[0]
				}
				walk(t.Body, func(n ast.Node) bool {
					if call, ok := n.(*ast.CallExpr); ok && exprString(call.Fun) == "CloneRange" {
						ncloneArgs = call.Args
					}
					return true
				})
			}
		}
		walk(fd.Body, func(n ast.Node) bool {
			if ifs, ok := n.(*ast.IfStmt); ok && ifs.Cond == nguard {
				return false
			}
			if call, ok := n.(*ast.CallExpr); ok && strings.HasSuffix(exprString(call.Fun), ".copy") {
				ncopies = append(ncopies, call.Args)
			}
			return true
		})
	}
	c.emitExpr("nullclone_dstAlignStart", "nullClone_dstAlignStart", NP, "UInt64", nass["dstAlignStart"], nenv, "0")
	c.emitExpr("nullclone_dstAlignEnd", "nullClone_dstAlignEnd", NP, "UInt64", nass["dstAlignEnd"], nenv, "0")
	c.emitExpr("nullclone_guard", "nullClone_guard", NP, "Bool", nguard, nenv, "false")
	pair := func(site, name string, args []ast.Expr, from int) {
		ok := len(args) >= from+2
		var parts []string
		src := ""
		if ok {
			for _, a := range args[from : from+2] {
				s, err := c.toLean(a, nenv)
				if err != nil {
					ok = false
					break
				}
				parts = append(parts, s)
				src += exprString(a) + ", "
			}
		}
		c.site(site, ok)
		if !ok {
			fmt.Fprintf(&c.lean, "-- SITE NOT FOUND: %s\n", site)
			parts = []string{"0", "0"}
		} else {
			fmt.Fprintf(&c.lean, "/-- Go: `%s` -/\n", strings.TrimSuffix(src, ", "))
		}
		fmt.Fprintf(&c.lean, "def %s %s : UInt64 × UInt64 := (%s)\n", name, NP, strings.Join(parts, ", "))
		c.facts[name] = src
	}
	c.lean.WriteString("/-! arguments (offset, length) of the zero fills -/\n")
	pair("nullclone_fallbackCopy", "nullClone_fallbackCopy", get(nguardCopy, 0), 1)
	pair("nullclone_headCopy", "nullClone_headCopy", get(ncopies, 0), 1)
	pair("nullclone_tailCopy", "nullClone_tailCopy", get(ncopies, 1), 1)
	c.emitExpr("nullclone_loopInit", "nullClone_loopInit", NP, "UInt64", loopInit, nenv, "0")
	c.emitExpr("nullclone_loopCond", "nullClone_loopCond", NP, "Bool", loopCond, nenv, "false")
	c.emitExpr("nullclone_loopStep", "nullClone_loopStep", NP, "UInt64", loopPost, nenv, "0")
	// CloneRange(dst, s.blockfile, 0, blocksize, blkOffset)
	{
		ok := len(ncloneArgs) == 5
		parts := []string{"0", "0", "0"}
		src := ""
		if ok {
			parts = nil
			for _, a := range ncloneArgs[2:5] {
				s, err := c.toLean(a, nenv)
				if err != nil {
					ok = false
					parts = []string{"0", "0", "0"}
					break
				}
				parts = append(parts, s)
				src += exprString(a) + ", "
			}
		}
		c.site("nullclone_cloneRange", ok)
		fmt.Fprintf(&c.lean, "/-- Go: `%s` -/\ndef nullClone_cloneRange %s : UInt64 × UInt64 × UInt64 := (%s)\n", strings.TrimSuffix(src, ", "), NP, strings.Join(parts, ", "))
	}

	// nullChunkSection.WriteInto: order of the decisions
	c.lean.WriteString("\n/-! order of operations -/\n")
	fd := c.funcDecl(c.files, "nullChunkSection", "WriteInto")
	c.emitShape("shape_null_writeInto", "nullWriteIntoShape", c.condCallShape(fd, []string{"length != s.Size()", "!s.canReflink", "isBlank"},
		[][2]string{{"s.copy", "copy"}, {"s.clone", "clone"}}), fd != nil)
	fd = c.funcDecl(c.files, "", "writeChunk")
	c.emitShape("shape_writeChunk", "writeChunkShape", c.condCallShape(fd, []string{"!isBlank", "sum == c.ID", "c.Size != uint64(len(b))"},
		[][2]string{{"ss.getChunk", "getChunk"}, {"segment.WriteInto", "WriteInto"}, {"f.ReadAt", "ReadAt"}, {"Digest.Sum", "Sum"},
			{"s.GetChunk", "GetChunk"}, {"chunk.Data", "Data"}, {"f.WriteAt", "WriteAt"}}), fd != nil)
	fd = c.funcDecl(c.files, "", "AssembleFile")
	c.emitShape("shape_assemble", "assembleShape", c.condCallShape(fd, []string{"sum != c.ID", "options.InvalidSeedAction == InvalidSeedActionRegenerate", "job.source != nil", "!isBlkDevice"},
		[][2]string{{"os.Truncate", "Truncate"}, {"newNullChunkSeed", "newNullChunkSeed"}, {"newSelfSeed", "newSelfSeed"},
			{"job.source.WriteInto", "WriteInto"}, {"f.ReadAt", "ReadAt"}, {"Digest.Sum", "Sum"}, {"writeChunk", "writeChunk"}, {"ss.add", "add"},
			{"seq.Plan", "Plan"}, {"plan.Validate", "Validate"}, {"seq.RegenerateInvalidSeeds", "Regenerate"}, {"seq.Rewind", "Rewind"},
			{"waitOrInterrupted", "waitOrInterrupted"}}), fd != nil)
	fd = c.funcDecl(c.files, "selfSeed", "add")
	c.emitShape("shape_selfseed_add", "selfSeedAddShape", c.condCallShape(fd, []string{"!ok"},
		[][2]string{{"s.mu.Lock", "Lock"}, {"s.mu.Unlock", "Unlock"}, {"delete", "delete"}}), fd != nil)

	// the planner's choice and limits
	c.lean.WriteString("\n/-! sequencer.go / fileseed.go / nullseed.go: the planner -/\n")
	var better ast.Expr
	if fd := c.funcDecl(c.files, "SeedSequencer", "Next"); fd != nil {
		walk(fd.Body, func(n ast.Node) bool {
			if ifs, ok := n.(*ast.IfStmt); ok && strings.Contains(exprString(ifs.Cond), "m.Size()") {
				better = ifs.Cond
			}
			return true
		})
	}
	c.emitExpr("seq_better", "seqBetter", "(n : Nat) (size max : UInt64)", "Bool", better, map[string]string{"n": "n", "m.Size()": "size", "max": "max"}, "false")
	limitOf := func(recv, fn string) ast.Expr {
		var e ast.Expr
		if fd := c.funcDecl(c.files, recv, fn); fd != nil {
			walk(fd.Body, func(n ast.Node) bool {
				if ifs, ok := n.(*ast.IfStmt); ok && exprString(ifs.Cond) == "!s.canReflink" && len(ifs.Body.List) == 1 {
					if as, ok := ifs.Body.List[0].(*ast.AssignStmt); ok && exprString(as.Lhs[0]) == "limit" {
						e = as.Rhs[0]
					}
				}
				return true
			})
		}
		return e
	}
	c.emitExpr("fileseed_limit", "fileSeedLimit", "", "Nat", limitOf("FileSeed", "LongestMatchWith"), nil, "0")
	c.emitExpr("nullseed_limit", "nullSeedLimit", "", "Nat", limitOf("nullChunkSeed", "LongestMatchWith"), nil, "0")
}

// condCallShape lists, in source order, the recognised calls and the recognised `if` conditions
// (as "if:<cond>") of a function
var lenArg = regexp.MustCompile(`len\([A-Za-z_][A-Za-z0-9_]*\)`)

func (c *ctx) condCallShape(fd *ast.FuncDecl, conds []string, pats [][2]string) []string {
	if fd == nil {
		return nil
	}
	type hit struct {
		pos   int
		label string
	}
	var hits []hit
	walk(fd.Body, func(n ast.Node) bool {
		switch t := n.(type) {
		case *ast.IfStmt:
			cs := exprString(t.Cond)
			for _, k := range conds {
				// the name of a local inside len(…) does not matter
				if cs == k || lenArg.ReplaceAllString(cs, "len(_)") == lenArg.ReplaceAllString(k, "len(_)") {
					hits = append(hits, hit{int(t.Pos()), "if:" + k})
				}
			}
		case *ast.CallExpr:
			fn := exprString(t.Fun)
			for _, p := range pats {
				if fn == p[0] || strings.HasSuffix(fn, "."+p[0]) {
					hits = append(hits, hit{int(t.Pos()), p[1]})
					break
				}
			}
		}
		return true
	})
	for i := 1; i < len(hits); i++ {
		for j := i; j > 0 && hits[j].pos < hits[j-1].pos; j-- {
			hits[j], hits[j-1] = hits[j-1], hits[j]
		}
	}
	out := make([]string, len(hits))
	for i, h := range hits {
		out[i] = h.label
	}
	return out
}
