package main

import (
	"sort"
	"fmt"
	"go/ast"
	"go/token"
	"strings"
)

// ---------------------------------------------------------------------------------------
// chunker.go

func (c *ctx) chunkerFacts() {
	c.lean.WriteString("\n/-! chunker.go -/\n")
	// hashTable
	var tbl []string
	if f := c.files["chunker.go"]; f != nil {
		for _, d := range f.Decls {
			gd, ok := d.(*ast.GenDecl)
			if !ok || gd.Tok != token.VAR {
				continue
			}
			for _, s := range gd.Specs {
				vs := s.(*ast.ValueSpec)
				if len(vs.Names) == 1 && vs.Names[0].Name == "hashTable" && len(vs.Values) == 1 {
					if cl, ok := vs.Values[0].(*ast.CompositeLit); ok {
						for _, e := range cl.Elts {
							if v, ok := c.evalConst(e); ok {
								tbl = append(tbl, fmt.Sprintf("0x%08x", v))
							}
						}
					}
				}
			}
		}
	}
	c.site("chunker_hashTable", len(tbl) == 256)
	c.lean.WriteString("def hashTable : Array UInt32 := #[\n")
	for i := 0; i < len(tbl); i += 8 {
		j := i + 8
		if j > len(tbl) {
			j = len(tbl)
		}
		c.lean.WriteString("  " + strings.Join(tbl[i:j], ", "))
		if j < len(tbl) {
			c.lean.WriteString(",")
		}
		c.lean.WriteString("\n")
	}
	c.lean.WriteString("]\n")
	c.facts["hashTable_len"] = len(tbl)

	// boundary test and the two loop guards of Chunker.Next
	var boundary, minGuard ast.Expr
	var bufFactor ast.Expr
	if fd := c.funcDecl(c.files, "Chunker", "Next"); fd != nil {
		// the comparison may sit in an `if` of Next or in a helper Next calls (`return c.hValue%… == …`)
		walkThrough(fd.Body, nil, func(n ast.Node) bool {
			be, ok := n.(*ast.BinaryExpr)
			if !ok {
				return true
			}
			s := exprString(be)
			switch be.Op {
			case token.EQL, token.NEQ:
				if strings.Contains(s, "hDiscriminator") && boundary == nil {
					boundary = be
					return false
				}
			case token.LSS, token.GTR, token.LEQ, token.GEQ:
				if strings.Contains(s, "c.min") && strings.Contains(s, "len(c.buf)") && minGuard == nil {
					minGuard = be
					return false
				}
			}
			return true
		})
	}
	if fd := c.funcDecl(c.files, "Chunker", "fillBuffer"); fd != nil {
		walk(fd.Body, func(n ast.Node) bool {
			as, ok := n.(*ast.AssignStmt)
			if ok && len(as.Lhs) == 1 && exprString(as.Lhs[0]) == "size" && len(as.Rhs) == 1 {
				bufFactor = as.Rhs[0]
			}
			return true
		})
	}
	c.emitExpr("chunker_boundary", "isBoundary", "(h d : UInt32)", "Bool", boundary,
		map[string]string{"c.hValue": "h", "c.hDiscriminator": "d"}, "false")
	c.emitExpr("chunker_minGuard", "bufTooShort", "(buflen min : Nat)", "Bool", minGuard,
		map[string]string{"len(c.buf)": "buflen", "c.min": "min"}, "false")
	c.emitExpr("chunker_bufSize", "bufSize", "(max : Nat)", "Nat", bufFactor,
		map[string]string{"c.max": "max"}, "0")

	// which test comes first inside the loop: `pos >= m` before the boundary test
	order := []string{}
	if fd := c.funcDecl(c.files, "Chunker", "Next"); fd != nil {
		walk(fd.Body, func(n ast.Node) bool {
			fs, ok := n.(*ast.ForStmt)
			if !ok || fs.Cond != nil {
				return true
			}
			for _, st := range fs.Body.List {
				if _, ok := st.(*ast.IfStmt); ok {
					order = append(order, "if") // how they are spelled does not matter, how many there are does
				}
			}
			return false
		})
	}
	c.lean.WriteString("/-- conditions tested, in order, after each rolled byte in `Chunker.Next` -/\n")
	c.lean.WriteString("def chunkerLoopTests : List String := [" + quoteList(order) + "]\n")
	c.facts["chunkerLoopTests"] = order

	// discriminatorFromAvg literals (float; only recorded, the model takes d as a parameter)
	lits := []string{}
	if fd := c.funcDecl(c.files, "", "discriminatorFromAvg"); fd != nil {
		walk(fd.Body, func(n ast.Node) bool {
			if bl, ok := n.(*ast.BasicLit); ok && bl.Kind == token.FLOAT {
				lits = append(lits, bl.Value)
			}
			return true
		})
	}
	c.site("chunker_discriminator", len(lits) == 2)
	c.lean.WriteString("def discriminatorLiterals : List String := [" + quoteList(lits) + "]\n")
	for len(lits) < 2 {
		lits = append(lits, "0.0")
	}
	fmt.Fprintf(&c.lean, "/-- Go: `uint32(float64(avg) / (-%s*float64(avg) + %s))` -/\n", lits[0], lits[1])
	fmt.Fprintf(&c.lean, "def discriminatorFromAvg (avg : UInt64) : UInt32 :=\n  (avg.toFloat / (-%s * avg.toFloat + %s)).toUInt32\n", lits[0], lits[1])
	c.facts["discriminatorLiterals"] = lits
}

func quoteList(l []string) string {
	q := make([]string, len(l))
	for i, s := range l {
		q[i] = fmt.Sprintf("%q", s)
	}
	return strings.Join(q, ", ")
}

// ---------------------------------------------------------------------------------------
// filesystem.go: mode conversions (filled in with C05)

func (c *ctx) modeFacts() {}

// callShape lists, in source order, the calls inside fd whose callee (as printed) ends with one
// of the given suffixes; the label of the matching pattern is recorded.
func (c *ctx) callShape(fd *ast.FuncDecl, pats [][2]string) []string {
	var out []string
	if fd == nil {
		return nil
	}
	label := func(call *ast.CallExpr) string {
		fn := exprString(call.Fun)
		for _, p := range pats {
			if strings.HasSuffix(fn, p[0]) {
				return p[1]
			}
		}
		return ""
	}
	// a call that matches a pattern is recorded and not looked into; any other call to a local helper is looked
	// through, so that statements moved into a helper still show up where the helper is called
	walkThrough(fd.Body, func(call *ast.CallExpr) bool { return label(call) != "" }, func(n ast.Node) bool {
		if call, ok := n.(*ast.CallExpr); ok {
			if l := label(call); l != "" {
				out = append(out, l)
			}
		}
		return true
	})
	return out
}

func (c *ctx) emitShape(site, name string, shape []string, found bool) {
	c.site(site, found)
	if !found {
		fmt.Fprintf(&c.lean, "-- SITE NOT FOUND: %s\n", site)
	}
	fmt.Fprintf(&c.lean, "def %s : List String := [%s]\n", name, quoteList(shape))
	c.facts[name] = shape
}

// shapes: ordered lists of recognised calls in functions whose step order matters
func (c *ctx) shapeFacts() {
	c.lean.WriteString("\n/-! shapes -/\n")
	// sparse-file.go loadChunk
	fd := c.funcDecl(c.files, "sparseFileLoader", "loadChunk")
	sh := c.callShape(fd, [][2]string{
		{"once.Do", "once.Do"}, {"chunks[i].mu.Lock", "chunk.mu.Lock"}, {"done.Get", "done.Get"},
		{"s.GetChunk", "GetChunk"}, {"c.Data", "Data"}, {".WriteAt", "WriteAt"}, {"done.Set", "done.Set"}})
	c.lean.WriteString("/-- order of operations in `sparseFileLoader.loadChunk` -/\n")
	c.emitShape("shape_sparse_loadChunk", "sparseLoadChunkShape", sh, fd != nil)

	// local.go StoreChunk
	fd = c.funcDecl(c.files, "LocalStore", "StoreChunk")
	sh = c.callShape(fd, [][2]string{
		{"os.MkdirAll", "MkdirAll"}, {"tempfile.NewMode", "TempFile"}, {".Write", "Write"}, {".Close", "Close"},
		{"os.Remove", "Remove"}, {"os.Rename", "Rename"}, {"os.Create", "Create"}, {"os.OpenFile", "OpenFile"}, {"ioutil.WriteFile", "WriteFile"}, {"os.WriteFile", "WriteFile"},
		{"os.Stat", "Stat"}, {"os.Lstat", "Stat"}, {"s.HasChunk", "HasChunk"}, {"os.Link", "Link"}, {"os.Symlink", "Symlink"}})
	c.lean.WriteString("/-- file operations of `LocalStore.StoreChunk`, in source order (a look at what is already there — Stat, HasChunk — would show up here: the chunk is written unconditionally, which is what a cache repair relies on) -/\n")
	c.emitShape("shape_local_StoreChunk", "localStoreChunkShape", sh, fd != nil)

	// dedupqueue.go: leader path of GetChunk/HasChunk and the order inside markDone
	for _, fn := range []string{"GetChunk", "HasChunk"} {
		fd = c.funcDecl(c.files, "DedupQueue", fn)
		sh = c.callShape(fd, [][2]string{
			{"Queue.loadOrStore", "loadOrStore"}, {"req.wait", "wait"}, {"q.store." + fn, "upstream"}, {"req.markDone", "markDone"}, {"Queue.delete", "delete"}})
		c.lean.WriteString("/-- `DedupQueue." + fn + "`: calls in source order -/\n")
		c.emitShape("shape_dedup_"+fn, "dedup"+fn+"Shape", sh, fd != nil)
	}
	fd = c.funcDecl(c.files, "WriteDedupQueue", "StoreChunk")
	sh = c.callShape(fd, [][2]string{
		{"Queue.loadOrStore", "loadOrStore"}, {"req.wait", "wait"}, {"q.S.StoreChunk", "upstream"}, {"req.markDone", "markDone"}, {"Queue.delete", "delete"}})
	c.lean.WriteString("/-- `WriteDedupQueue.StoreChunk`: calls in source order -/\n")
	c.emitShape("shape_dedup_StoreChunk", "dedupStoreChunkShape", sh, fd != nil)
	md := []string{}
	if fd = c.funcDecl(c.files, "request", "markDone"); fd != nil {
		for _, st := range fd.Body.List {
			switch t := st.(type) {
			case *ast.AssignStmt:
				if len(t.Lhs) == 1 {
					md = append(md, strings.TrimPrefix(exprString(t.Lhs[0]), "r."))
				}
			case *ast.ExprStmt:
				if call, ok := t.X.(*ast.CallExpr); ok && exprString(call.Fun) == "close" {
					md = append(md, "close")
				}
			}
		}
	}
	// the order of the assignments among themselves does not matter, their position relative to close does
	{
		var norm, group []string
		for _, x := range md {
			if x == "close" {
				sort.Strings(group)
				norm = append(append(norm, group...), "close")
				group = nil
			} else {
				group = append(group, x)
			}
		}
		sort.Strings(group)
		md = append(norm, group...)
	}
	c.lean.WriteString("/-- `request.markDone`: the result is published before `done` is closed -/\n")
	c.emitShape("shape_dedup_markDone", "dedupMarkDoneShape", md, fd != nil)

	// chunkstorage.go StoreChunk
	fd = c.funcDecl(c.files, "ChunkStorage", "StoreChunk")
	sh = c.callShape(fd, [][2]string{
		{"s.markProcessed", "markProcessed"}, {"s.ws.HasChunk", "HasChunk"}, {"s.unmarkProcessed", "unmarkProcessed"}, {"s.ws.StoreChunk", "StoreChunk"}})
	c.lean.WriteString("/-- `ChunkStorage.StoreChunk`: calls in source order (the un-mark sits in a deferred closure before the store call) -/\n")
	c.emitShape("shape_chunkstorage_StoreChunk", "chunkStorageShape", sh, fd != nil)

	// cmd/desync/extract.go writeWithTmpFile: temp file in the target's directory, assemble, rename only on success
	fd = c.funcDecl(c.cmd, "", "writeWithTmpFile")
	sh = c.callShape(fd, [][2]string{
		{"tempfile.NewMode", "TempFile"}, {"os.Remove", "Remove"}, {"writeInplace", "Assemble"}, {"os.Rename", "Rename"}, {"os.Create", "Create"}, {"os.OpenFile", "OpenFile"}})
	guarded := false
	if fd != nil {
		returns := func(b *ast.BlockStmt) bool {
			for _, st := range b.List {
				if _, ok := st.(*ast.ReturnStmt); ok {
					return true
				}
			}
			return false
		}
		// `if stats, err = writeInplace(…); err != nil { return … }`, or the assignment followed by `if err != nil { return … }`
		walk(fd.Body, func(n ast.Node) bool {
			blk, ok := n.(*ast.BlockStmt)
			if !ok {
				return true
			}
			for i, st := range blk.List {
				switch t := st.(type) {
				case *ast.IfStmt:
					if as, ok := t.Init.(*ast.AssignStmt); ok && len(as.Rhs) == 1 && strings.Contains(exprString(as.Rhs[0]), "writeInplace") &&
						strings.Contains(exprString(t.Cond), "err!=nil") && returns(t.Body) {
						guarded = true
					}
				case *ast.AssignStmt:
					if len(t.Rhs) == 1 && strings.Contains(exprString(t.Rhs[0]), "writeInplace") && i+1 < len(blk.List) {
						if ifs, ok := blk.List[i+1].(*ast.IfStmt); ok && ifs.Init == nil && exprString(ifs.Cond) == "err!=nil" && returns(ifs.Body) {
							guarded = true
						}
					}
				}
			}
			return true
		})
	}
	c.lean.WriteString("/-- `writeWithTmpFile` (extract without --in-place): calls in source order -/\n")
	c.emitShape("shape_extract_tmpfile", "extractTmpFileShape", sh, fd != nil)
	fmt.Fprintf(&c.lean, "/-- a failed assembly returns before the rename -/\ndef extractTmpFileReturnsOnError : Bool := %v\n", guarded)
}

// pool shapes: what the feeder does on ctx.Done() and how the result is computed
func (c *ctx) miscFacts() {
	c.lean.WriteString("\n/-! worker-pool functions: (marks interruption in the ctx.Done arm, reports it after Wait) -/\n")
	type pf struct{ recv, name string }
	for _, f := range []pf{{"", "AssembleFile"}, {"Plan", "Validate"}, {"", "VerifyIndex"}, {"", "ChopFile"}, {"", "Copy"}, {"", "ChunkStream"}, {"", "UnTarIndex"}} {
		fd := c.funcDecl(c.files, f.recv, f.name)
		marks, reports, hasSelect := false, false, false
		if fd != nil {
			// the flag variable assigned `true` inside a `case <-ctx.Done():` arm
			flag := ""
			allArmsMark := true
			walk(fd.Body, func(n ast.Node) bool {
				cc, ok := n.(*ast.CommClause)
				if !ok || cc.Comm == nil {
					return true
				}
				es, ok := cc.Comm.(*ast.ExprStmt)
				if !ok || exprString(es.X) != "<-ctx.Done()" {
					return true
				}
				// only arms that leave a feeder loop (contain a labelled break) are of interest
				breaks := false
				armFlag := ""
				for _, st := range cc.Body {
					switch t := st.(type) {
					case *ast.BranchStmt:
						if t.Tok == token.BREAK && t.Label != nil {
							breaks = true
						}
					case *ast.AssignStmt:
						if len(t.Lhs) == 1 && len(t.Rhs) == 1 && exprString(t.Rhs[0]) == "true" {
							armFlag = exprString(t.Lhs[0])
						}
					}
				}
				if !breaks {
					return true
				}
				hasSelect = true
				// the assemble step of UnTarIndex also breaks on ctx.Done(); it is not a feeder (it consumes)
				if armFlag == "" {
					if strings.Contains(exprString(cc.Comm.(*ast.ExprStmt).X), "ctx.Done") && f.name == "UnTarIndex" && flag != "" {
						return true
					}
					allArmsMark = false
				} else {
					flag = armFlag
				}
				return true
			})
			marks = hasSelect && flag != "" && (allArmsMark || f.name == "UnTarIndex")
			if flag != "" {
				walk(fd.Body, func(n ast.Node) bool {
					switch t := n.(type) {
					case *ast.CallExpr:
						if exprString(t.Fun) == "waitOrInterrupted" && len(t.Args) == 2 && exprString(t.Args[1]) == flag {
							reports = true
						}
					case *ast.IfStmt:
						if exprString(t.Cond) == flag && len(t.Body.List) == 1 {
							if rs, ok := t.Body.List[0].(*ast.ReturnStmt); ok && len(rs.Results) >= 1 &&
								strings.HasPrefix(exprString(rs.Results[len(rs.Results)-1]), "Interrupted") {
								reports = true
							}
						}
					}
					return true
				})
			}
		}
		name := f.name
		if f.recv != "" {
			name = f.recv + name
		}
		c.site("pool_"+name, fd != nil && hasSelect)
		fmt.Fprintf(&c.lean, "def poolShape_%s : Bool × Bool := (%v, %v)\n", name, marks, reports)
		c.facts["poolShape_"+name] = []bool{marks, reports}
	}
	// waitOrInterrupted itself: returns the group's error first, Interrupted when flagged, else nil
	okHelper := false
	if fd := c.funcDecl(c.files, "", "waitOrInterrupted"); fd != nil {
		src := []string{}
		for _, st := range fd.Body.List {
			switch t := st.(type) {
			case *ast.IfStmt:
				src = append(src, "if:"+exprString(t.Cond))
				if t.Init != nil {
					if as, ok := t.Init.(*ast.AssignStmt); ok && len(as.Rhs) == 1 {
						src[len(src)-1] = "if:" + exprString(as.Rhs[0]) + ";" + exprString(t.Cond)
					}
				}
			case *ast.ReturnStmt:
				if len(t.Results) == 1 {
					src = append(src, "return:"+exprString(t.Results[0]))
				}
			}
		}
		okHelper = strings.Join(src, "|") == "if:g.Wait();err!=nil|if:interrupted|return:nil"
		c.facts["waitOrInterrupted"] = src
	}
	c.site("pool_waitOrInterrupted", okHelper)
}
