package main

// verifyindex.go: the batching arithmetic of the feeder loop of `VerifyIndex`, extracted by MEANING.
//
// The feeder loop is found by what it does (a `for` statement whose body ends in a `select` one of whose arms sends
// a slice `X[lo:hi]` of the index's chunk list on a channel), not by how its variables are called.  The statements
// of the function before the loop and the statements of the loop body before the `select` are evaluated
// symbolically (environment: Go variable -> Lean term over `i c n`, where `i` is the value of the loop variable at
// the beginning of an iteration, `c` = `len(idx.Chunks)` and `n` the worker count), and five functions are emitted:
//
//	Gen.vInit c n      the start value of the loop variable
//	Gen.vCond i c n    the loop condition
//	Gen.vLo/vHi i c n  the bounds of the slice that is sent
//	Gen.vNext i c n    the loop variable after the body and the post statement
//
// Whatever the evaluator does not understand (a statement with an effect on a variable the five terms depend on,
// a `continue`, a nested loop, state carried from one iteration to the next in another variable, …) makes the
// sites "not found": the obligations turn red, nothing is guessed.  Go `int` subtraction is emitted as truncated
// `Nat` subtraction; the proofs carry the guard (`i < c`) under which it is exact for the pinned code.

import (
	"fmt"
	"go/ast"
	"go/token"
	"sort"
	"strings"
)

const viChunks = "«idx.Chunks»" // the symbolic value of the chunk list (never emitted)

type viEval struct {
	c      *ctx
	env    map[string]string // variable (or printed expression) -> Lean term
	poison map[string]bool   // variables whose value the evaluator does not know
	why    string            // first reason for giving up
}

func (v *viEval) fail(format string, a ...any) bool {
	if v.why == "" {
		v.why = fmt.Sprintf(format, a...)
	}
	return false
}

func copyEnv(m map[string]string) map[string]string {
	r := make(map[string]string, len(m))
	for k, x := range m {
		r[k] = x
	}
	return r
}

// bind gives variable name the value val; an alias of the chunk list also binds its length
func (v *viEval) bind(name, val string) {
	if name == "_" {
		return
	}
	delete(v.poison, name)
	delete(v.env, "len("+name+")")
	v.env[name] = val
	if val == viChunks {
		v.env["len("+name+")"] = "c"
	}
}

func (v *viEval) forget(name string) {
	delete(v.env, name)
	delete(v.env, "len("+name+")")
	v.poison[name] = true
}

// term translates a Go expression in the current environment; a poisoned variable anywhere inside is an error
func (v *viEval) term(e ast.Expr) (string, error) {
	bad := ""
	walk(e, func(n ast.Node) bool {
		if id, ok := n.(*ast.Ident); ok && v.poison[id.Name] {
			if _, bound := v.env[id.Name]; !bound {
				bad = id.Name
			}
		}
		return true
	})
	if bad != "" {
		return "", fmt.Errorf("value of %s unknown", bad)
	}
	s, err := v.c.toLean(e, v.env)
	if err == nil && strings.Contains(s, viChunks) && s != viChunks {
		return "", fmt.Errorf("chunk list used as a number in %s", exprString(e))
	}
	return s, err
}

func isVerifHook(st ast.Stmt) bool {
	es, ok := st.(*ast.ExprStmt)
	if !ok {
		return false
	}
	call, ok := es.X.(*ast.CallExpr)
	if !ok {
		return false
	}
	id, ok := call.Fun.(*ast.Ident)
	return ok && strings.HasPrefix(id.Name, "verif")
}

// assignedIn lists the variables a statement may write (assignments, ++/--, range variables, address taken),
// closures included
func assignedIn(n ast.Node) map[string]bool {
	out := map[string]bool{}
	walk(n, func(m ast.Node) bool {
		switch t := m.(type) {
		case *ast.AssignStmt:
			for _, l := range t.Lhs {
				if id, ok := l.(*ast.Ident); ok {
					out[id.Name] = true
				}
			}
		case *ast.IncDecStmt:
			if id, ok := t.X.(*ast.Ident); ok {
				out[id.Name] = true
			}
		case *ast.RangeStmt:
			for _, e := range []ast.Expr{t.Key, t.Value} {
				if id, ok := e.(*ast.Ident); ok {
					out[id.Name] = true
				}
			}
		case *ast.UnaryExpr:
			if t.Op == token.AND {
				if id, ok := t.X.(*ast.Ident); ok {
					out[id.Name] = true
				}
			}
		case *ast.ValueSpec:
			for _, id := range t.Names {
				out[id.Name] = true
			}
		}
		return true
	})
	return out
}

// assign evaluates one assignment-like statement.  declared collects the names the statement declares.
func (v *viEval) assign(st ast.Stmt, declared map[string]bool, strict bool) bool {
	giveUp := func(names []string, err error) bool {
		if strict {
			return v.fail("%v", err)
		}
		for _, n := range names {
			v.forget(n)
		}
		return true
	}
	switch t := st.(type) {
	case *ast.AssignStmt:
		names := []string{}
		for _, l := range t.Lhs {
			id, ok := l.(*ast.Ident)
			if !ok { // a field, an element, a dereference: nothing the five terms can depend on is written by name
				if strict {
					return v.fail("assignment to %s", exprString(l))
				}
				continue
			}
			names = append(names, id.Name)
		}
		if len(names) != len(t.Lhs) {
			return giveUp(names, fmt.Errorf("assignment to a non-variable"))
		}
		switch t.Tok {
		case token.DEFINE, token.ASSIGN:
			if len(t.Lhs) != len(t.Rhs) {
				return giveUp(names, fmt.Errorf("multi-value assignment %s", exprString(t.Rhs[0])))
			}
			vals := make([]string, len(names))
			for i, r := range t.Rhs {
				s, err := v.term(r)
				if err != nil {
					if strict {
						return v.fail("%s: %v", exprString(r), err)
					}
					s = ""
				}
				vals[i] = s
			}
			for i, n := range names {
				if t.Tok == token.DEFINE && declared != nil {
					declared[n] = true
				}
				if vals[i] == "" {
					v.forget(n)
				} else {
					v.bind(n, vals[i])
				}
			}
			return true
		default: // x op= e
			op, ok := map[token.Token]token.Token{token.ADD_ASSIGN: token.ADD, token.SUB_ASSIGN: token.SUB,
				token.MUL_ASSIGN: token.MUL, token.QUO_ASSIGN: token.QUO, token.REM_ASSIGN: token.REM}[t.Tok]
			if !ok || len(names) != 1 || len(t.Rhs) != 1 {
				return giveUp(names, fmt.Errorf("unsupported assignment operator %s", t.Tok))
			}
			s, err := v.term(&ast.BinaryExpr{X: t.Lhs[0], Op: op, Y: t.Rhs[0]})
			if err != nil {
				return giveUp(names, err)
			}
			v.bind(names[0], s)
			return true
		}
	case *ast.IncDecStmt:
		id, ok := t.X.(*ast.Ident)
		if !ok {
			if strict {
				return v.fail("%s%s", exprString(t.X), t.Tok)
			}
			return true
		}
		op := token.ADD
		if t.Tok == token.DEC {
			op = token.SUB
		}
		s, err := v.term(&ast.BinaryExpr{X: id, Op: op, Y: &ast.BasicLit{Kind: token.INT, Value: "1"}})
		if err != nil {
			return giveUp([]string{id.Name}, err)
		}
		v.bind(id.Name, s)
		return true
	case *ast.DeclStmt:
		gd, ok := t.Decl.(*ast.GenDecl)
		if !ok || gd.Tok != token.VAR {
			return true // const/type declarations: constants are looked up by toLean
		}
		for _, sp := range gd.Specs {
			vs := sp.(*ast.ValueSpec)
			for i, id := range vs.Names {
				if declared != nil {
					declared[id.Name] = true
				}
				switch {
				case len(vs.Values) == len(vs.Names):
					if s, err := v.term(vs.Values[i]); err == nil {
						v.bind(id.Name, s)
					} else if strict {
						return v.fail("%s: %v", exprString(vs.Values[i]), err)
					} else {
						v.forget(id.Name)
					}
				case len(vs.Values) == 0 && typeName(vs.Type) == "int":
					v.bind(id.Name, "0")
				default:
					v.forget(id.Name)
				}
			}
		}
		return true
	}
	return v.fail("unsupported statement %T", st)
}

// block evaluates a straight-line block (assignments, if/else made of assignments, verification hooks); anything
// else is not understood.  Names declared in the block do not leave it.
func (v *viEval) block(list []ast.Stmt, declared map[string]bool) bool {
	for _, st := range list {
		switch t := st.(type) {
		case *ast.AssignStmt, *ast.IncDecStmt, *ast.DeclStmt:
			if !v.assign(st, declared, true) {
				return false
			}
		case *ast.EmptyStmt:
		case *ast.ExprStmt:
			if !isVerifHook(st) {
				return v.fail("call %s in the loop body", exprString(t.X))
			}
		case *ast.BlockStmt:
			if !v.scoped(t.List) {
				return false
			}
		case *ast.IfStmt:
			if !v.ifStmt(t) {
				return false
			}
		default:
			return v.fail("unsupported statement %T in the loop body", st)
		}
	}
	return true
}

// scoped evaluates a nested block: what it declares is forgotten afterwards (an outer variable of the same name
// keeps the value it had)
func (v *viEval) scoped(list []ast.Stmt) bool {
	before := copyEnv(v.env)
	beforeP := map[string]bool{}
	for k := range v.poison {
		beforeP[k] = true
	}
	decl := map[string]bool{}
	// a name declared in the block shadows the outer one from the declaration on; an assignment to it BEFORE the
	// declaration would go to the outer variable — refuse that spelling instead of tracking it
	seen := map[string]bool{}
	for _, st := range list {
		for n := range assignedIn(st) {
			if as, ok := st.(*ast.AssignStmt); ok && as.Tok == token.DEFINE {
				continue
			}
			seen[n] = true
		}
		if as, ok := st.(*ast.AssignStmt); ok && as.Tok == token.DEFINE {
			for _, l := range as.Lhs {
				if id, ok := l.(*ast.Ident); ok && seen[id.Name] {
					return v.fail("%s assigned and then re-declared in a nested block", id.Name)
				}
			}
		}
	}
	if !v.block(list, decl) {
		return false
	}
	for n := range decl {
		delete(v.env, n)
		delete(v.env, "len("+n+")")
		delete(v.poison, n)
		if old, ok := before[n]; ok {
			v.env[n] = old
			if l, ok := before["len("+n+")"]; ok {
				v.env["len("+n+")"] = l
			}
		}
		if beforeP[n] {
			v.poison[n] = true
		}
	}
	return true
}

func (v *viEval) ifStmt(t *ast.IfStmt) bool {
	if t.Init != nil {
		return v.fail("if statement with an init clause")
	}
	cond, err := v.term(t.Cond)
	if err != nil {
		return v.fail("condition %s: %v", exprString(t.Cond), err)
	}
	start := copyEnv(v.env)
	if !v.scoped(t.Body.List) {
		return false
	}
	thenEnv := v.env
	v.env = copyEnv(start)
	switch e := t.Else.(type) {
	case nil:
	case *ast.BlockStmt:
		if !v.scoped(e.List) {
			return false
		}
	case *ast.IfStmt:
		if !v.ifStmt(e) {
			return false
		}
	default:
		return v.fail("unsupported else branch")
	}
	elseEnv := v.env
	merged := copyEnv(start)
	keys := map[string]bool{}
	for k := range thenEnv {
		keys[k] = true
	}
	for k := range elseEnv {
		keys[k] = true
	}
	for k := range keys {
		a, okA := thenEnv[k]
		b, okB := elseEnv[k]
		switch {
		case okA && okB && a == b:
			merged[k] = a
		case okA && okB && a != viChunks && b != viChunks && !strings.HasPrefix(k, "len("):
			merged[k] = "(if " + cond + " then " + a + " else " + b + ")"
		default:
			delete(merged, k)
			if !strings.HasPrefix(k, "len(") {
				v.poison[k] = true
			}
		}
	}
	v.env = merged
	return true
}

// terminates: the clause leaves the loop (labelled break, goto, return) as its last statement
func leavesLoop(list []ast.Stmt) bool {
	if len(list) == 0 {
		return false
	}
	switch t := list[len(list)-1].(type) {
	case *ast.ReturnStmt:
		return true
	case *ast.BranchStmt:
		return (t.Tok == token.BREAK && t.Label != nil) || t.Tok == token.GOTO
	}
	return false
}

// feederSelect: st is a `select` with exactly one arm that sends a slice of the chunk list; the other arms leave
// the loop; the sending arm's body consists of verification hooks only
func (v *viEval) feederSelect(st ast.Stmt) (*ast.SliceExpr, bool) {
	sel, ok := st.(*ast.SelectStmt)
	if !ok {
		return nil, false
	}
	var found *ast.SliceExpr
	for _, cl := range sel.Body.List {
		cc := cl.(*ast.CommClause)
		if send, ok := cc.Comm.(*ast.SendStmt); ok {
			if se, ok := send.Value.(*ast.SliceExpr); ok && !se.Slice3 {
				if x, err := v.term(se.X); err == nil && x == viChunks {
					if found != nil {
						return nil, false
					}
					found = se
					for _, b := range cc.Body {
						if !isVerifHook(b) {
							v.fail("statement %T after the send", b)
							return nil, false
						}
					}
					continue
				}
			}
		}
		if !leavesLoop(cc.Body) {
			// an arm that neither sends the batch nor leaves the loop would skip a batch
			v.fail("a select arm neither sends the batch nor leaves the loop")
			return nil, false
		}
	}
	return found, found != nil
}

func (c *ctx) verifyIndexFacts() {
	c.lean.WriteString("\n/-! verifyindex.go: batches handed to the workers (feeder loop of `VerifyIndex`, evaluated symbolically:\n" +
		"    `i` = the loop variable at the beginning of an iteration, `c` = `len(idx.Chunks)`, `n` = the worker count) -/\n")
	v := &viEval{c: c, env: map[string]string{}, poison: map[string]bool{}}
	savedLets := c.lets
	c.lets = nil // locals are looked through by the evaluator's own environment
	defer func() { c.lets = savedLets }()

	var initT, condT, loT, hiT, nextT string
	var initS, condS, loS, hiS, nextS string
	ok := false
	fd := c.funcDecl(c.files, "", "VerifyIndex")
	func() {
		if fd == nil || fd.Body == nil {
			v.fail("function VerifyIndex not found")
			return
		}
		// parameters by type: the index, the worker count
		idxName, nName := "", ""
		nInt := 0
		for _, f := range fd.Type.Params.List {
			for _, id := range f.Names {
				switch typeName(f.Type) {
				case "Index":
					idxName = id.Name
				case "int":
					nName = id.Name
					nInt++
				}
			}
		}
		if idxName == "" || nInt != 1 {
			v.fail("parameters of VerifyIndex not recognised")
			return
		}
		v.env[idxName+".Chunks"] = viChunks
		v.env["len("+idxName+".Chunks)"] = "c"
		v.bind(nName, "n")

		// the feeder loop
		var loop *ast.ForStmt
		loopAt := -1
		for k, st := range fd.Body.List {
			if ls, isL := st.(*ast.LabeledStmt); isL {
				st = ls.Stmt
			}
			fs, isFor := st.(*ast.ForStmt)
			if !isFor || len(fs.Body.List) == 0 {
				continue
			}
			if _, isSel := fs.Body.List[len(fs.Body.List)-1].(*ast.SelectStmt); !isSel {
				continue
			}
			sends := false
			walk(fs.Body, func(m ast.Node) bool {
				if s, ok := m.(*ast.SendStmt); ok {
					if _, ok := s.Value.(*ast.SliceExpr); ok {
						sends = true
					}
				}
				return true
			})
			if sends {
				if loop != nil {
					v.fail("more than one feeder loop")
					return
				}
				loop, loopAt = fs, k
			}
		}
		if loop == nil {
			v.fail("no loop that sends slices of the chunk list from a select")
			return
		}
		// variables written by closures or through their address anywhere in the function are never known
		written := map[string]bool{}
		walk(fd.Body, func(m ast.Node) bool {
			switch t := m.(type) {
			case *ast.FuncLit:
				for n := range assignedIn(t.Body) {
					written[n] = true
				}
			case *ast.UnaryExpr:
				if id, ok := t.X.(*ast.Ident); ok && t.Op == token.AND {
					written[id.Name] = true
				}
			}
			return true
		})
		// the statements before the loop: plain assignments are evaluated, everything else forgets what it writes
		for _, st := range fd.Body.List[:loopAt] {
			switch st.(type) {
			case *ast.AssignStmt, *ast.IncDecStmt, *ast.DeclStmt:
				v.assign(st, nil, false)
			default:
				for n := range assignedIn(st) {
					v.forget(n)
				}
			}
			for n := range written {
				v.forget(n)
			}
		}
		// loop header
		loopVar := ""
		if loop.Init != nil {
			as, isAs := loop.Init.(*ast.AssignStmt)
			if !isAs || len(as.Lhs) != 1 || len(as.Rhs) != 1 {
				v.fail("loop init not understood")
				return
			}
			id, isId := as.Lhs[0].(*ast.Ident)
			if !isId {
				v.fail("loop init not understood")
				return
			}
			loopVar = id.Name
			if !v.assign(as, nil, true) {
				return
			}
			initS = exprString(as.Rhs[0])
		} else if loop.Post != nil {
			for n := range assignedIn(loop.Post) {
				loopVar = n
			}
			initS = loopVar + " (before the loop)"
		}
		if loopVar == "" || loop.Cond == nil || written[loopVar] {
			v.fail("loop header not understood")
			return
		}
		var has bool
		if initT, has = v.env[loopVar]; !has || initT == viChunks {
			v.fail("start value of the loop variable unknown")
			return
		}
		outer := copyEnv(v.env)
		v.bind(loopVar, "i")
		outer[loopVar] = "i"
		var err error
		if condT, err = v.term(loop.Cond); err != nil {
			v.fail("loop condition %s: %v", exprString(loop.Cond), err)
			return
		}
		condS = exprString(loop.Cond)
		// no continue / nested loop / goto / return in the part of the body that is evaluated is guaranteed by
		// `block`; a `continue` inside the select would skip nothing (the select is last), but refuse it anyway
		bad := false
		walk(loop.Body, func(m ast.Node) bool {
			if b, ok := m.(*ast.BranchStmt); ok && b.Tok == token.CONTINUE {
				bad = true
			}
			return true
		})
		if bad {
			v.fail("continue in the feeder loop")
			return
		}
		body := loop.Body.List
		declared := map[string]bool{}
		if !v.block(body[:len(body)-1], declared) {
			return
		}
		se, found := v.feederSelect(body[len(body)-1])
		if !found {
			v.fail("select of the feeder loop not understood")
			return
		}
		// nothing inside the select may write a variable the terms depend on
		for n := range assignedIn(body[len(body)-1]) {
			if _, dep := v.env[n]; dep || n == loopVar {
				v.fail("%s written inside the select", n)
				return
			}
		}
		loT, loS = "0", "(none)"
		if se.Low != nil {
			if loT, err = v.term(se.Low); err != nil {
				v.fail("slice bound %s: %v", exprString(se.Low), err)
				return
			}
			loS = exprString(se.Low)
		}
		hiT, hiS = "c", "(none)"
		if se.High != nil {
			if hiT, err = v.term(se.High); err != nil {
				v.fail("slice bound %s: %v", exprString(se.High), err)
				return
			}
			hiS = exprString(se.High)
		}
		// the post statement sees the outer variables only
		for n := range declared {
			delete(v.env, n)
			delete(v.env, "len("+n+")")
			delete(v.poison, n)
			if old, ok := outer[n]; ok {
				v.bind(n, old)
			}
		}
		nextS = loopVar + " (unchanged)"
		if loop.Post != nil {
			if !v.assign(loop.Post, nil, true) {
				return
			}
			nextS = stmtString(loop.Post)
		}
		if nextT, has = v.env[loopVar]; !has {
			v.fail("next value of the loop variable unknown")
			return
		}
		// no other outer variable may carry state from one iteration to the next
		names := []string{}
		for n := range outer {
			names = append(names, n)
		}
		sort.Strings(names)
		for _, n := range names {
			if n == loopVar || strings.HasPrefix(n, "len(") {
				continue
			}
			if now, ok := v.env[n]; !ok || now != outer[n] {
				v.fail("%s carries state between iterations", n)
				return
			}
		}
		for n := range v.poison {
			if _, wasKnown := outer[n]; wasKnown {
				v.fail("%s carries state between iterations", n)
				return
			}
		}
		for _, s := range []string{initT, condT, loT, hiT, nextT} {
			if strings.Contains(s, viChunks) {
				v.fail("chunk list used as a number")
				return
			}
		}
		ok = true
	}()

	emit := func(site, name, params, ty, src, lean, placeholder string) {
		c.site(site, ok)
		if !ok {
			fmt.Fprintf(&c.lean, "-- SITE NOT FOUND: %s (%s)\n", site, v.why)
			lean = placeholder
		} else {
			fmt.Fprintf(&c.lean, "/-- Go: `%s` -/\n", src)
		}
		fmt.Fprintf(&c.lean, "def %s %s : %s := %s\n", name, params, ty, lean)
		c.facts[name] = src
	}
	emit("verify_init", "vInit", "(c n : Nat)", "Nat", initS, initT, "0")
	emit("verify_cond", "vCond", "(i c n : Nat)", "Bool", condS, condT, "false")
	emit("verify_lo", "vLo", "(i c n : Nat)", "Nat", loS, loT, "0")
	emit("verify_hi", "vHi", "(i c n : Nat)", "Nat", hiS, hiT, "0")
	emit("verify_next", "vNext", "(i c n : Nat)", "Nat", nextS, nextT, "0")
}

func stmtString(st ast.Stmt) string {
	switch t := st.(type) {
	case *ast.AssignStmt:
		l, r := []string{}, []string{}
		for _, e := range t.Lhs {
			l = append(l, exprString(e))
		}
		for _, e := range t.Rhs {
			r = append(r, exprString(e))
		}
		return strings.Join(l, ",") + " " + t.Tok.String() + " " + strings.Join(r, ",")
	case *ast.IncDecStmt:
		return exprString(t.X) + t.Tok.String()
	}
	return fmt.Sprintf("<%T>", st)
}
