// Command protoempty: the chunk of zero bytes cannot be fetched over the casync protocol, although the store holds a
// valid object for it and every other transport delivers it.
//
// ProtocolServer.Serve re-compresses what chunk.Data() returns; Compress(empty) is the empty byte string (the
// encoder writes no frame for no input), the reply carries no storage bytes, and Protocol.RequestChunk's
// NewChunkFromStorage refuses an object without data (ChunkInvalid).  The same object read straight from the local
// store, with verification on, is accepted.  (A corner: no index made by desync contains an empty chunk.)
//
//	cd harness && go run -modfile=<go.mod with the replace directive> ./repro/protoempty
package main

import (
	"context"
	"fmt"
	"io"
	"os"
	"path/filepath"

	"github.com/folbricht/desync"
	"github.com/klauspost/compress/zstd"
)

func main() {
	dir, _ := os.MkdirTemp("", "protoempty")
	defer os.RemoveAll(dir)
	id := desync.ChunkID(desync.Digest.Sum(nil))
	enc, _ := zstd.NewWriter(nil, zstd.WithZeroFrames(true))
	frame := enc.EncodeAll(nil, nil) // a valid zstd frame of nothing, as another tool would write it
	p := filepath.Join(dir, id.String()[:4])
	os.MkdirAll(p, 0755)
	os.WriteFile(filepath.Join(p, id.String()+".cacnk"), frame, 0644)

	direct, _ := desync.NewLocalStore(dir, desync.StoreOptions{})
	c, err := direct.GetChunk(id)
	fmt.Printf("local store, verifying: err=%v", err)
	if err == nil {
		b, derr := c.Data()
		fmt.Printf(" data=%d bytes (err=%v)", len(b), derr)
	}
	fmt.Println()

	served, _ := desync.NewLocalStore(dir, desync.StoreOptions{SkipVerify: true}) // as `desync pull` opens it
	cr, sw := io.Pipe()
	sr, cw := io.Pipe()
	go desync.NewProtocolServer(sr, sw, served).Serve(context.Background())
	cl := desync.NewProtocol(cr, cw)
	if _, err := cl.Initialize(desync.CaProtocolPullChunks); err != nil {
		fmt.Println("handshake:", err)
		os.Exit(2)
	}
	_, err = cl.RequestChunk(id)
	fmt.Printf("casync protocol:        err=%v\n", err)
	if err != nil {
		fmt.Println("FAIL: the same chunk is delivered by the store and refused over the casync protocol")
		os.Exit(1)
	}
}
