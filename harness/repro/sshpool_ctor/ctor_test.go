//go:build repro

package sshpoolctor

// NewRemoteSSHStore(location, StoreOptions{N: 3}) when the SECOND StartProtocol fails:
//   * it returns the error AND a non-nil *RemoteSSH whose pool holds the one session started before (n stays 3),
//   * that session's child process keeps running (nobody says goodbye to it, nobody waits for it),
//   * Close on the returned store takes the one session and then blocks for ever in `<-r.pool`,
//   * a store opened with N = 0 accepts GetChunk and never answers.
// Model: Desync.C14.constructor_failure, Desync.C14.halfBuilt_close_blocks (lean/Desync/Properties/C14SshPool.lean).
// Run: cd harness && go test -tags repro -count=1 -v ./repro/sshpool_ctor/   (needs harness/bin/desync, built by ./check --setup)

import (
	"fmt"
	"net/url"
	"os"
	"path/filepath"
	"testing"
	"time"

	"github.com/folbricht/desync"
)

func TestConstructorFailureLeavesHalfBuiltStore(t *testing.T) {
	bin, _ := filepath.Abs("../../bin/desync")
	if _, err := os.Stat(bin); err != nil {
		t.Skip("harness/bin/desync not built")
	}
	dir := t.TempDir()
	store := filepath.Join(dir, "store")
	os.MkdirAll(store, 0755)
	cnt := filepath.Join(dir, "count")
	os.WriteFile(cnt, []byte("0"), 0644)
	pids := filepath.Join(dir, "pids")
	wrap := filepath.Join(dir, "fake-ssh")
	// the second start fails: the command exits before the handshake
	os.WriteFile(wrap, []byte(fmt.Sprintf("#!/bin/sh\nc=$(cat %s); echo $((c+1)) > %s\nif [ $c -ge 1 ]; then exit 1; fi\necho $$ >> %s\nshift\nexec sh -c \"$1\"\n", cnt, cnt, pids)), 0755)
	os.Setenv("CASYNC_SSH_PATH", wrap)
	os.Setenv("CASYNC_REMOTE_PATH", bin)
	u, _ := url.Parse("ssh://localhost" + store)
	rs, err := desync.NewRemoteSSHStore(u, desync.StoreOptions{N: 3})
	if err == nil {
		t.Fatal("the second start was expected to fail")
	}
	if rs == nil {
		t.Fatal("(no store returned: the half-built store is not handed out)")
	}
	t.Logf("constructor: error %q AND a non-nil store", err)
	// the first session still answers: the store is half usable
	got := make(chan error, 1)
	go func() { _, e := rs.GetChunk(desync.ChunkID{1}); got <- e }()
	select {
	case e := <-got:
		t.Logf("GetChunk on the half-built store answers: %v", e)
	case <-time.After(5 * time.Second):
		t.Log("GetChunk on the half-built store blocks")
	}
	b, _ := os.ReadFile(pids)
	t.Logf("child processes started and never told to stop (pids): %q", string(b))
	closed := make(chan struct{})
	go func() { rs.Close(); close(closed) }()
	select {
	case <-closed:
		t.Log("Close returned")
	case <-time.After(3 * time.Second):
		t.Log("Close on the half-built store does not return (1 session in the pool, loop bound n = 3)")
	}
}
