// Package repro holds minimal reproductions of defects that are recorded as findings rather than repaired.
// Every test in this file FAILS on the real code (that is the point).  Run from /verif/harness:
//
//	go test -count=1 ./repro/            (add -modfile=<go.mod with the replace directive redirected> for another tree)
package repro

import (
	"archive/tar"
	"bytes"
	"context"
	"io"
	"os"
	"testing"
	"time"

	"github.com/folbricht/desync"
)

// one-entry-per-call source for Tar
type recs struct {
	files []*desync.File
}

func (r *recs) Next() (*desync.File, error) {
	if len(r.files) == 0 {
		return nil, io.EOF
	}
	f := r.files[0]
	r.files = r.files[1:]
	return f, nil
}

// collects what UnTar hands to the writer
type tree struct {
	files map[string]string
	names []string
}

func (t *tree) CreateDir(n desync.NodeDirectory) error { t.names = append(t.names, n.Name); return nil }
func (t *tree) CreateFile(n desync.NodeFile) error {
	b, _ := io.ReadAll(n.Data)
	t.files[n.Name] = string(b)
	t.names = append(t.names, n.Name)
	return nil
}
func (t *tree) CreateSymlink(n desync.NodeSymlink) error { t.names = append(t.names, n.Name); return nil }
func (t *tree) CreateDevice(n desync.NodeDevice) error   { t.names = append(t.names, n.Name); return nil }

func tarStream(t *testing.T, hs []*tar.Header, data map[string]string) []byte {
	var b bytes.Buffer
	tw := tar.NewWriter(&b)
	for _, h := range hs {
		if d, ok := data[h.Name]; ok {
			h.Size = int64(len(d))
		}
		if err := tw.WriteHeader(h); err != nil {
			t.Fatal(err)
		}
		if d, ok := data[h.Name]; ok {
			tw.Write([]byte(d))
		}
	}
	tw.Close()
	return b.Bytes()
}

func throughCatar(t *testing.T, stream []byte) *tree {
	var c bytes.Buffer
	if err := desync.Tar(context.Background(), &c, desync.NewTarReader(bytes.NewReader(stream), desync.TarReaderOptions{})); err != nil {
		t.Fatal("Tar:", err)
	}
	tr := &tree{files: map[string]string{}}
	if err := desync.UnTar(context.Background(), bytes.NewReader(c.Bytes()), tr); err != nil {
		t.Fatal("UnTar:", err)
	}
	return tr
}

// finding gnutar.xattrs.refused-under-format-gnu: a file with one extended attribute, packed, then unpacked to a GNU tar
// stream (desync untar --output-format gnu-tar).  Fails with
// "archive/tar: cannot encode header: Format specifies GNU; and only PAX supports Xattrs".
func TestGnuTarOutputKeepsXattrs(t *testing.T) {
	mt := time.Unix(1500000000, 0)
	src := &recs{files: []*desync.File{
		{Name: ".", Path: ".", Mode: os.ModeDir | 0755, ModTime: mt},
		{Name: "f", Path: "f", Mode: 0644, ModTime: mt, Size: 1, Data: io.NopCloser(bytes.NewReader([]byte("x"))),
			Xattrs: map[string]string{"user.k": "v"}},
	}}
	var catar bytes.Buffer
	if err := desync.Tar(context.Background(), &catar, src); err != nil {
		t.Fatal(err)
	}
	var out bytes.Buffer
	w := desync.NewTarWriter(&out)
	if err := desync.UnTar(context.Background(), bytes.NewReader(catar.Bytes()), w); err != nil {
		t.Fatalf("untar to a GNU tar stream: %v", err)
	}
	w.Close()
	r := tar.NewReader(&out)
	for {
		h, err := r.Next()
		if err != nil {
			break
		}
		if h.Name == "f" && h.Xattrs["user.k"] == "v" {
			return
		}
	}
	t.Fatal("the extended attribute is not in the GNU tar stream")
}

// finding tarinput.typeflag-not-a-file-becomes-regular-file (a): a tree in which one file has two names, as tar(1) packs it
// (the second name is a hard link entry without content).  The archive made from the stream holds b as an EMPTY file.
func TestTarInputHardLinkKeepsContent(t *testing.T) {
	mt := time.Unix(1500000000, 0)
	s := tarStream(t, []*tar.Header{
		{Typeflag: tar.TypeDir, Name: "./", Mode: 0755, ModTime: mt},
		{Typeflag: tar.TypeReg, Name: "./a", Mode: 0644, ModTime: mt},
		{Typeflag: tar.TypeLink, Name: "./b", Linkname: "./a", Mode: 0644, ModTime: mt},
	}, map[string]string{"./a": "content"})
	tr := throughCatar(t, s)
	if tr.files["a"] != "content" || tr.files["b"] != "content" {
		t.Fatalf("files after tar --input-format tar ; untar: %q (want a and b with \"content\")", tr.files)
	}
}

// finding tarinput.typeflag-not-a-file-becomes-regular-file (b): a stream that starts with a PAX global header, as every
// `git archive` output does.  The archive made from it consists of one empty file named "."; the tree is gone, with success.
func TestTarInputSkipsPaxGlobalHeader(t *testing.T) {
	mt := time.Unix(1500000000, 0)
	s := tarStream(t, []*tar.Header{
		{Typeflag: tar.TypeXGlobalHeader, Name: "pax_global_header", PAXRecords: map[string]string{"comment": "0123456789abcdef"}, Format: tar.FormatPAX},
		{Typeflag: tar.TypeDir, Name: "./", Mode: 0755, ModTime: mt},
		{Typeflag: tar.TypeReg, Name: "./a", Mode: 0644, ModTime: mt},
	}, map[string]string{"./a": "content"})
	tr := throughCatar(t, s)
	if tr.files["a"] != "content" || len(tr.names) != 2 {
		t.Fatalf("entries after tar --input-format tar ; untar: %q files %q (want the directory and a)", tr.names, tr.files)
	}
}
