// Package repro holds minimal reproductions of defects found by the C05 tarfs model.  The three defects reproduced by
// TestGnuTarOutputKeepsXattrs, TestTarInputHardLink and TestTarInputSkipsPaxGlobalHeader were repaired in /repo (c6df8d2,
// 8595654): these tests PASS now and failed before.  TestGnuTarOutputKeepsXattrsOnDirectories FAILS on the real code
// (that is the point): it is what the repair 8595654 does not reach because of the finding
// gnutar.header-mode.filemode-bits, which is kept.  Run from /verif/harness:
//
//	go test -count=1 ./repro/            (add -modfile=<go.mod with the replace directive redirected> for another tree)
package repro

import (
	"archive/tar"
	"bytes"
	"context"
	"io"
	"os"
	"strings"
	"testing"
	"time"

	"github.com/folbricht/desync"
)

// one-entry-per-call source for Tar
type recs struct {
	files []*desync.File
}

func (r *recs) Next() (*desync.File, error) {
	if len(r.files) == 0 {
		return nil, io.EOF
	}
	f := r.files[0]
	r.files = r.files[1:]
	return f, nil
}

// collects what UnTar hands to the writer
type tree struct {
	files map[string]string
	names []string
}

func (t *tree) CreateDir(n desync.NodeDirectory) error { t.names = append(t.names, n.Name); return nil }
func (t *tree) CreateFile(n desync.NodeFile) error {
	b, _ := io.ReadAll(n.Data)
	t.files[n.Name] = string(b)
	t.names = append(t.names, n.Name)
	return nil
}
func (t *tree) CreateSymlink(n desync.NodeSymlink) error { t.names = append(t.names, n.Name); return nil }
func (t *tree) CreateDevice(n desync.NodeDevice) error   { t.names = append(t.names, n.Name); return nil }

func tarStream(t *testing.T, hs []*tar.Header, data map[string]string) []byte {
	var b bytes.Buffer
	tw := tar.NewWriter(&b)
	for _, h := range hs {
		if d, ok := data[h.Name]; ok {
			h.Size = int64(len(d))
		}
		if err := tw.WriteHeader(h); err != nil {
			t.Fatal(err)
		}
		if d, ok := data[h.Name]; ok {
			tw.Write([]byte(d))
		}
	}
	tw.Close()
	return b.Bytes()
}

func throughCatar(t *testing.T, stream []byte) *tree {
	var c bytes.Buffer
	if err := desync.Tar(context.Background(), &c, desync.NewTarReader(bytes.NewReader(stream), desync.TarReaderOptions{})); err != nil {
		t.Fatal("Tar:", err)
	}
	tr := &tree{files: map[string]string{}}
	if err := desync.UnTar(context.Background(), bytes.NewReader(c.Bytes()), tr); err != nil {
		t.Fatal("UnTar:", err)
	}
	return tr
}

// repaired in 8595654 (was finding gnutar.xattrs.refused-under-format-gnu): a file with one extended attribute, packed, then
// unpacked to a GNU tar stream (desync untar --output-format gnu-tar).  Before, it failed with
// "archive/tar: cannot encode header: Format specifies GNU; and only PAX supports Xattrs".
func TestGnuTarOutputKeepsXattrs(t *testing.T) {
	mt := time.Unix(1500000000, 0)
	src := &recs{files: []*desync.File{
		{Name: ".", Path: ".", Mode: os.ModeDir | 0755, ModTime: mt},
		{Name: "f", Path: "f", Mode: 0644, ModTime: mt, Size: 1, Data: io.NopCloser(bytes.NewReader([]byte("x"))),
			Xattrs: map[string]string{"user.k": "v"}},
	}}
	var catar bytes.Buffer
	if err := desync.Tar(context.Background(), &catar, src); err != nil {
		t.Fatal(err)
	}
	var out bytes.Buffer
	w := desync.NewTarWriter(&out)
	if err := desync.UnTar(context.Background(), bytes.NewReader(catar.Bytes()), w); err != nil {
		t.Fatalf("untar to a GNU tar stream: %v", err)
	}
	w.Close()
	r := tar.NewReader(&out)
	for {
		h, err := r.Next()
		if err != nil {
			break
		}
		if h.Name == "f" && h.Xattrs["user.k"] == "v" {
			return
		}
	}
	t.Fatal("the extended attribute is not in the GNU tar stream")
}

// NOT repaired (a consequence of the kept finding gnutar.header-mode.filemode-bits): a directory and a symbolic link with an
// extended attribute.  TarWriter writes the os.FileMode bits into the header's mode field (a directory: 020000000755), which
// only a GNU header can hold, while only a PAX header can hold the attributes.  Fails with
// "archive/tar: cannot encode header: Format specifies PAX; and PAX cannot encode Mode=2147484141".
func TestGnuTarOutputKeepsXattrsOnDirectories(t *testing.T) {
	mt := time.Unix(1500000000, 0)
	for _, f := range []*desync.File{
		{Name: "d", Path: "d", Mode: os.ModeDir | 0755, ModTime: mt, Xattrs: map[string]string{"user.k": "v"}},
		{Name: "l", Path: "l", Mode: os.ModeSymlink | 0777, ModTime: mt, LinkTarget: "t", Xattrs: map[string]string{"user.k": "v"}},
		{Name: "s", Path: "s", Mode: os.ModeSetuid | 0755, ModTime: mt, Data: io.NopCloser(bytes.NewReader(nil)), Xattrs: map[string]string{"user.k": "v"}},
	} {
		src := &recs{files: []*desync.File{{Name: ".", Path: ".", Mode: os.ModeDir | 0755, ModTime: mt}, f}}
		var catar bytes.Buffer
		if err := desync.Tar(context.Background(), &catar, src); err != nil {
			t.Fatal(err)
		}
		var out bytes.Buffer
		w := desync.NewTarWriter(&out)
		if err := desync.UnTar(context.Background(), bytes.NewReader(catar.Bytes()), w); err != nil {
			t.Errorf("untar to a GNU tar stream, %s with an extended attribute: %v", f.Name, err)
		}
	}
}

// repaired in c6df8d2 (was finding tarinput.typeflag-not-a-file-becomes-regular-file, a): a tree in which one file has two
// names, as tar(1) packs it (the second name is a hard link entry without content).  Before, the archive made from the stream
// held b as an EMPTY file; now Tar fails with "./b: hard links are not supported".
func TestTarInputHardLink(t *testing.T) {
	mt := time.Unix(1500000000, 0)
	s := tarStream(t, []*tar.Header{
		{Typeflag: tar.TypeDir, Name: "./", Mode: 0755, ModTime: mt},
		{Typeflag: tar.TypeReg, Name: "./a", Mode: 0644, ModTime: mt},
		{Typeflag: tar.TypeLink, Name: "./b", Linkname: "./a", Mode: 0644, ModTime: mt},
	}, map[string]string{"./a": "content"})
	var c bytes.Buffer
	err := desync.Tar(context.Background(), &c, desync.NewTarReader(bytes.NewReader(s), desync.TarReaderOptions{}))
	if err == nil {
		t.Fatal("Tar of a tar stream with a hard link entry succeeded")
	}
	if !strings.Contains(err.Error(), "hard links are not supported") {
		t.Fatalf("Tar failed, but not for the hard link: %v", err)
	}
}

// repaired in c6df8d2 (was finding tarinput.typeflag-not-a-file-becomes-regular-file, b): a stream that starts with a PAX
// global header, as every `git archive` output does.  Before, the archive made from it consisted of one empty file named ".".
func TestTarInputSkipsPaxGlobalHeader(t *testing.T) {
	mt := time.Unix(1500000000, 0)
	s := tarStream(t, []*tar.Header{
		{Typeflag: tar.TypeXGlobalHeader, Name: "pax_global_header", PAXRecords: map[string]string{"comment": "0123456789abcdef"}, Format: tar.FormatPAX},
		{Typeflag: tar.TypeDir, Name: "./", Mode: 0755, ModTime: mt},
		{Typeflag: tar.TypeReg, Name: "./a", Mode: 0644, ModTime: mt},
	}, map[string]string{"./a": "content"})
	tr := throughCatar(t, s)
	if tr.files["a"] != "content" || len(tr.names) != 2 {
		t.Fatalf("entries after tar --input-format tar ; untar: %q files %q (want the directory and a)", tr.names, tr.files)
	}
}
