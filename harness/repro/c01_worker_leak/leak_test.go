//go:build repro

// Reproduction (not a violation of C01: the call returns): AssembleFile leaks its N worker goroutines when it returns
// before the feed loop (invalid seed under bail-out, failed regeneration, interrupted validation).
// Run: scratch module with `replace github.com/folbricht/desync => <repo>`, `go test -tags repro`.
package leak

import (
	"context"
	"os"
	"path/filepath"
	"runtime"
	"testing"
	"time"

	"github.com/folbricht/desync"
)

type noStore struct{}

func (noStore) GetChunk(id desync.ChunkID) (*desync.Chunk, error) {
	return nil, desync.ChunkMissing{ID: id}
}
func (noStore) HasChunk(id desync.ChunkID) (bool, error) { return false, nil }
func (noStore) Close() error                             { return nil }
func (noStore) String() string                           { return "none" }

// AssembleFile starts its N workers before it validates the plan; when validation fails under
// bail-out it returns without closing the job channel, and the workers stay blocked for ever.
func TestWorkersLeakOnInvalidSeed(t *testing.T) {
	dir := t.TempDir()
	data := make([]byte, 100)
	for i := range data {
		data[i] = byte(i)
	}
	id := desync.Digest.Sum(data)
	idx := desync.Index{Index: desync.FormatIndex{FeatureFlags: desync.CaFormatSHA512256, ChunkSizeMin: 64, ChunkSizeAvg: 128, ChunkSizeMax: 256},
		Chunks: []desync.IndexChunk{{ID: id, Start: 0, Size: 100}}}
	seedFile := filepath.Join(dir, "seed")
	stale := append([]byte{}, data...)
	stale[0] ^= 1 // the seed file no longer matches its index
	os.WriteFile(seedFile, stale, 0644)
	target := filepath.Join(dir, "out")
	before := runtime.NumGoroutine()
	for i := 0; i < 20; i++ {
		seed, _ := desync.NewIndexSeed(target, seedFile, idx)
		_, err := desync.AssembleFile(context.Background(), target, idx, noStore{}, []desync.Seed{seed}, desync.AssembleOptions{N: 8})
		if err == nil {
			t.Fatal("expected the invalid seed to be reported")
		}
	}
	time.Sleep(200 * time.Millisecond)
	after := runtime.NumGoroutine()
	t.Logf("goroutines before %d, after 20 failed calls with N=8: %d", before, after)
	if after-before >= 160 {
		t.Errorf("%d goroutines leaked", after-before)
	}
}
