//go:build repro

// Reproductions for mtreefs.go (observations of the C05 mtree work; Lean: Properties/C05Mtree.lean).
// Run (from harness/): go test -modfile=<go.mod with `replace github.com/folbricht/desync => <repo>`> -tags repro ./repro/mtree_space
//
//  1. mtreeFilename leaves the space — the field separator of mtree(5) — unescaped: two different symbolic links print the
//     same line, and a directory named "a uid=0" owned by 1000 prints a line whose second word is uid=0
//     (`mtree_line_not_injective`, `mtree_space_in_name_misread`).  mtree(5) / vis(3) writers print a space as \040.
//  2. The Create* methods drop the result of fmt.Fprintln: on a writer that runs full they report success
//     (`mtree_full_disk_reports_success`); UnTar into such an MtreeFS returns nil with the listing cut short.
package mtreespace

import (
	"bytes"
	"context"
	"errors"
	"os"
	"strings"
	"testing"
	"time"

	"github.com/folbricht/desync"
)

func TestTwoSymlinksOneLine(t *testing.T) {
	var a, b bytes.Buffer
	fa, _ := desync.NewMtreeFS(&a)
	fb, _ := desync.NewMtreeFS(&b)
	mt := time.Unix(1, 0)
	fa.CreateSymlink(desync.NodeSymlink{Name: "a", Target: "b type=link mode=0777 target=c", Mode: os.ModeSymlink | 0o777, MTime: mt})
	fb.CreateSymlink(desync.NodeSymlink{Name: "a type=link mode=0777 target=b", Target: "c", Mode: os.ModeSymlink | 0o777, MTime: mt})
	if a.String() == b.String() {
		t.Fatalf("two different symbolic links, one listing:\n%s", a.String())
	}
}

func TestSpaceInNameChangesOwner(t *testing.T) {
	var a bytes.Buffer
	fs, _ := desync.NewMtreeFS(&a)
	fs.CreateDir(desync.NodeDirectory{Name: "a uid=0", UID: 1000, GID: 1000, Mode: os.ModeDir | 0o755, MTime: time.Unix(0, 0)})
	line := strings.Split(a.String(), "\n")[1]
	words := strings.Fields(line)
	if words[0] != `a\040uid=0` {
		t.Fatalf("the name is not one word of the line: %q (words: %q)", line, words)
	}
}

type fullAfter struct {
	room int
	buf  bytes.Buffer
}

func (w *fullAfter) Write(p []byte) (int, error) {
	if len(p) > w.room {
		n := w.room
		w.buf.Write(p[:n])
		w.room = 0
		return n, errors.New("no space left on device")
	}
	w.room -= len(p)
	return w.buf.Write(p)
}

func TestFullWriterReportsSuccess(t *testing.T) {
	// a catar of a small tree, made in memory
	dir := t.TempDir()
	os.WriteFile(dir+"/one", []byte("1"), 0o644)
	os.WriteFile(dir+"/two", []byte("2"), 0o644)
	var ar bytes.Buffer
	if err := desync.Tar(context.Background(), &ar, desync.NewLocalFS(dir, desync.LocalFSOptions{})); err != nil {
		t.Fatal(err)
	}
	var whole bytes.Buffer
	fs, _ := desync.NewMtreeFS(&whole)
	if err := desync.UnTar(context.Background(), bytes.NewReader(ar.Bytes()), fs); err != nil {
		t.Fatal(err)
	}
	w := &fullAfter{room: 64} // the header and the first line fit
	fs, err := desync.NewMtreeFS(w)
	if err != nil {
		t.Fatal(err)
	}
	err = desync.UnTar(context.Background(), bytes.NewReader(ar.Bytes()), fs)
	if err == nil && w.buf.Len() < whole.Len() {
		t.Fatalf("UnTar into MtreeFS returned nil although the writer failed: %d of %d bytes of the listing were written", w.buf.Len(), whole.Len())
	}
}
