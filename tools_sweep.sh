#!/bin/bash
# tools_sweep.sh <tier> <seed>... : every check of the given tier at each seed on the unchanged tree; prints one line per run
# and the verdict lines of any run that is not quiet (a false alarm of the machinery, or a finding)
tier=$1; shift
cd "$(dirname "$0")"
./check --setup > /dev/null 2>&1
for seed in "$@"; do
  for i in $(seq -w 1 20); do
    s=$(date +%s)
    out=$(VERIF_SEED=$seed ./check C$i --tier $tier 2>&1); rc=$?
    echo "seed=$seed C$i rc=$rc $(( $(date +%s)-s ))s"
    if [ $rc -ne 0 ]; then echo "$out" | grep -E "VIOLATION|failing input|no longer|^check " | cut -c1-400; cp .work/replays/C$i-seed$seed-1.json sweep-C$i-seed$seed.json 2>/dev/null; fi
  done
done
