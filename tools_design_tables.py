#!/usr/bin/env python3
"""prints the generated tables of DESIGN.md section 12 (status per property, seeded changes)"""
import json, os, glob
R = "/verif"
ob = json.load(open(f"{R}/lean/obligations.json"))
props = {json.loads(l)["id"]: json.loads(l) for l in open(f"{R}/properties.jsonl")}
print("| id | property | obligations | cases (quick) | distinct non-trivial | tie |")
print("|---|---|---|---|---|---|")
for p in sorted(ob):
    ev = {}
    try:
        ev = json.load(open(f"{R}/evidence/{p}.json"))["coverage"]
    except Exception:
        pass
    hist = ev.get("histogram", {})
    tr = ev.get("traces_validated_against_impl", 0)
    tie = "facts+correspondence" + (f"+{tr} traces" if tr else "")
    print(f"| {p} | {props[p]['title']} | {ev.get('discharged','?')}/{ev.get('obligations', len(ob[p]['theorems']))} | {ev.get('evaluations','?')} | {ev.get('distinct_nontrivial','?')} | {tie} |")
print()
res = json.load(open(f"{R}/seeded/RESULTS.json")) if os.path.exists(f"{R}/seeded/RESULTS.json") else {}
print("| change | what it does | needs | caught by | how |")
print("|---|---|---|---|---|")
for d in sorted(glob.glob(f"{R}/seeded/C*-*")):
    n = os.path.basename(d)
    m = json.load(open(f"{d}/meta.json"))
    r = res.get(n, {})
    by = r.get("detected_by") or "—"
    lines = (r.get(by) or {}).get("lines", []) if by != "—" else []
    how = ""
    for l in lines:
        if "failing input found" in l:
            how = l.strip().replace("failing input found: ", "input: ")[:110]
        elif "no longer check" in l and not how:
            how = l.strip()[:110]
    summ = " ".join(m.get("summary", "").split())[:150]
    trig = " ".join(m.get("trigger", "").split())[:120]
    print(f"| {n} | {summ} | {trig} | {('check ' + n.split('-')[0] + ' (' + by + ')') if by != '—' else 'MISSED'} | {how} |")
