#!/usr/bin/env python3
"""rewrites the two generated tables of DESIGN.md (status per property in 12.1, seeded changes in 12.5) and the size line from
the current evidence, obligations and seeded/RESULTS.json"""
import subprocess, re, glob
s = open("/verif/DESIGN.md").read()
out = subprocess.check_output(["python3", "/verif/tools_design_tables.py"], text=True)
t1, t2 = out.split("\n\n", 1)
def replace_table(s, header, new):
    i = s.index(header)
    j = s.index("\n\n", i)
    return s[:i] + new.strip("\n") + s[j:]
s = replace_table(s, "| id | property | obligations | cases (quick) | distinct non-trivial | tie |", t1)
s = replace_table(s, "| change | what it does | needs | caught by | how |", t2)
def lines(pat):
    n = 0
    for f in glob.glob(pat, recursive=True):
        n += sum(1 for _ in open(f, errors="replace"))
    return n
size = "Size: %d lines of models, %d lines of proofs, %d lines of property files, %d lines of driver,\n%d lines of Go harness and extractor." % (
    lines("/verif/lean/Desync/Model/*.lean") + lines("/verif/lean/Desync/Basic/*.lean") + lines("/verif/lean/Desync/Hash/*.lean"),
    lines("/verif/lean/Desync/Proofs/*.lean"), lines("/verif/lean/Desync/Properties/**/*.lean"), lines("/verif/lean/Driver/*.lean"),
    lines("/verif/harness/**/*.go"))
s = re.sub(r"Size: \d+ lines of models.*?extractor\.", size, s, count=1, flags=re.S)
open("/verif/DESIGN.md", "w").write(s)
print(size)
