#!/usr/bin/env python3
"""Regenerates MANIFEST.json from lean/obligations.json (claimed properties) and the table below."""
import json, os
ROOT = os.path.dirname(os.path.abspath(__file__))
ob = json.load(open(os.path.join(ROOT, "lean", "obligations.json")))
props = [json.loads(l) for l in open(os.path.join(ROOT, "properties.jsonl"))]
PENDING = "not claimed yet: the Lean model and correspondence for this property are not built in this revision (DESIGN.md section 6 describes the plan); no other technique is substituted"
checks, na = [], []
for p in props:
    pid = p["id"]
    if pid in ob:
        o = ob[pid]
        checks.append({
            "property_id": pid,
            "quick_cmd": "./check %s --tier quick" % pid,
            "thorough_cmd": "./check %s --tier thorough" % pid,
            "evidence_file": "/verif/evidence/%s.json" % pid,
            "replay_cmd_template": "./check %s --replay {path}" % pid,
            "engine": "lean4+go-harness",
            "level_claimed": {
                "category": o.get("level", "proof"),
                "text": o.get("level_text", "Lean 4 theorems over an executable model of the code, for all inputs/states the property quantifies over; the model is tied to /repo on every run by regenerated facts and by a behavioural correspondence check"),
                "design_ref": "DESIGN.md section 6 (%s)" % pid,
            },
            "level_note": o.get("level_note", "trusted: Lean kernel + propext/Classical.choice/Quot.sound; fact extractor; sampled model/implementation correspondence; Go runtime, OS, zstd, SHA-2 by contract. " + o.get("modelled", "")),
            "technique": o.get("technique", "Lean 4 machine-checked proof over a hand-written executable model + regenerated facts + differential correspondence with the Go implementation"),
        })
    else:
        na.append({"property_id": pid, "reason": PENDING})
m = {
    "version": 1,
    "setup_cmd": "./check --setup",
    "hooks": {
        "guard": "verif",
        "enable": "go build -tags verif (the harness module replaces github.com/folbricht/desync by /repo)",
        "baseline_off_cmd": "cd /repo && go test -mod=mod -vet=off -count=1 ./...",
        "source_commits": json.load(open(os.path.join(ROOT, "hooks.json"))) if os.path.exists(os.path.join(ROOT, "hooks.json")) else [],
        "add_only": True,
    },
    "engines": [{"name": "lean4+go-harness", "path": "/verif/check", "serves_properties": sorted(ob),
                 "kind_free_text": "Lean 4 proofs over executable models (lean/), go/ast fact extractor and differential harness (harness/), orchestrated by ./check"}],
    "checks": checks,
    "not_applicable": na,
    "notes": "See DESIGN.md. Every check regenerates lean/Desync/Generated/Facts.lean from /repo's working tree, rebuilds the property's Lean module, audits axioms, rebuilds the Go harness with -tags verif against /repo and runs the correspondence.",
}
json.dump(m, open(os.path.join(ROOT, "MANIFEST.json"), "w"), indent=1)
print("MANIFEST: %d checks, %d not_applicable" % (len(checks), len(na)))
