#!/bin/bash
# tools_rebase_patches.sh : patches under seeded/ and benign/ that no longer apply to /repo's HEAD (hook lines or fixes landed in
# their context) are re-based with a three-way merge in a scratch worktree; the old patch is kept as patch.orig.diff
wt=/tmp/rebase_wt
for d in /verif/seeded/C*-? /verif/benign/C*; do
  git -C /repo apply --check $d/patch.diff 2>/dev/null && continue
  rm -rf $wt; git -C /repo worktree prune; git -C /repo worktree add --detach $wt HEAD >/dev/null 2>&1
  if git -C $wt apply --3way $d/patch.diff >/dev/null 2>&1 && ! git -C $wt diff --name-only --diff-filter=U | grep -q .; then
    [ -f $d/patch.orig.diff ] || cp $d/patch.diff $d/patch.orig.diff
    git -C $wt diff HEAD > $d/patch.diff
    (cd $wt && go build ./... >/dev/null 2>&1 && go build -tags verif ./... >/dev/null 2>&1) && echo "REBASED $(basename $d)" || echo "REBASED-BUT-DOES-NOT-BUILD $(basename $d)"
  else
    echo "CONFLICT $(basename $d)"
  fi
  git -C /repo worktree remove --force $wt
done
